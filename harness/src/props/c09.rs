//! C09 — multi-party PSET blinding balances for every split and order of blinders.
//!
//! Real code under test: `Pset::{blind_non_last, blind_last, extract_tx}`, `Global::scalars`
//! (serialize → deserialize hop), `Transaction::verify_tx_amt_proofs`, `TxOut::unblind`,
//! `blind_value_proof_verify`, `blind_asset_proof_verify`, `ValueBlindingFactor::{last, +=, neg}`.
//! The Lean driver gets SCALARS only (values, blinding factors as reported by the real calls)
//! and must reproduce the published scalars / the last value blinding factor and the verdicts.
use crate::{gen, hex, Out, Rng, SeedableRng, R};
use elements::bitcoin;
use elements::confidential::{self, AssetBlindingFactor, ValueBlindingFactor};
use elements::encode::{deserialize, serialize};
use elements::hashes::Hash;
use elements::pset::{self, PartiallySignedTransaction as Pset, PsetBlindError};
use elements::secp256k1_zkp::{All, PublicKey, Secp256k1, SecretKey, Tweak, ZERO_TWEAK};
use elements::{
    Address, AddressParams, AssetId, BlindAssetProofs, BlindValueProofs, ConfidentialTxOutError, CtLocation, OutPoint,
    Script, SurjectionInput, TxOut, TxOutSecrets, TxOutWitness, Txid,
};
use std::collections::{BTreeMap, HashMap};

type Ret = BTreeMap<CtLocation, (AssetBlindingFactor, ValueBlindingFactor, SecretKey)>;

// ---------------------------------------------------------------------------------------------
// scenario
// ---------------------------------------------------------------------------------------------

#[derive(Clone)]
struct InSpec {
    asset: usize,
    sec: TxOutSecrets,
    kind: Kind,
    party: Option<usize>,
    utxo: TxOut,
}

#[derive(Clone)]
struct OutSpec {
    asset: usize,
    amount: u64,
    /// owner party of a blinded output
    owner: Option<usize>,
    recv_sk: Option<SecretKey>,
}

#[derive(Clone)]
struct Scenario {
    /// explicit issuance pseudo-inputs (asset index, amount): inputs of the balance
    issued: Vec<(usize, u64)>,
    assets: Vec<AssetId>,
    ins: Vec<InSpec>,
    outs: Vec<OutSpec>,
    nparties: usize,
    party_seed: Vec<u64>,
    pset: Pset,
}

fn tw(t: &Tweak) -> String {
    hex(t.as_ref())
}

fn p2wpkh(rng: &mut R) -> Script {
    let mut v = vec![0u8, 20];
    v.extend(gen::bytes(rng, 20));
    Script::from(v)
}

fn split(rng: &mut R, total: u64, k: usize) -> Vec<u64> {
    // k pieces, each >= 1, summing to total (total >= k)
    let mut cuts: Vec<u64> = Vec::new();
    let mut rest = total - k as u64;
    for i in 0..k {
        let take = if i + 1 == k {
            rest
        } else {
            match rng.gen_range(0..4) {
                0 => 0,
                1 => rest,
                _ => rng.gen_range(0..=rest),
            }
        };
        rest -= take;
        cuts.push(take + 1);
    }
    cuts
}

fn in_value(rng: &mut R) -> u64 {
    match rng.gen_range(0..10) {
        0 => rng.gen_range(100..200),
        1 => 21_000_000 * 100_000_000,
        2 => 1u64 << rng.gen_range(20..60),
        3 => rng.gen_range(1u64 << 52..1u64 << 61),
        _ => rng.gen_range(1_000..1_000_000_000_000),
    }
}

/// the (asset, amount) lattice of a spent UTXO
#[derive(Clone, Copy, PartialEq, Eq, Debug)]
enum Kind {
    /// explicit asset, explicit amount: abf = vbf = 0, term 0
    EE,
    /// both blinded: abf != 0, vbf != 0
    CC,
    /// blinded asset, explicit amount: abf != 0, vbf = 0, term = value * abf
    CE,
    /// explicit asset, amount committed on the unblinded generator: abf = 0, vbf != 0, term = vbf
    EC,
}
const KINDS: [Kind; 4] = [Kind::EE, Kind::CC, Kind::CE, Kind::EC];
impl Kind {
    fn name(self) -> &'static str {
        match self { Kind::EE => "EE", Kind::CC => "CC", Kind::CE => "CE", Kind::EC => "EC" }
    }
    fn nonzero_term(self) -> bool {
        self != Kind::EE
    }
}

/// a UTXO of the given kind with REAL commitments (so that `verify_tx_amt_proofs` works) and its secrets
fn make_utxo(secp: &Secp256k1<All>, rng: &mut R, asset: AssetId, value: u64, kind: Kind) -> (TxOut, TxOutSecrets) {
    let rnd_abf = |rng: &mut R| AssetBlindingFactor::from_slice(gen::tweak(rng).as_ref()).unwrap();
    let rnd_vbf = |rng: &mut R| ValueBlindingFactor::from_slice(gen::tweak(rng).as_ref()).unwrap();
    let (abf, vbf) = match kind {
        Kind::EE => (AssetBlindingFactor::zero(), ValueBlindingFactor::zero()),
        Kind::CC => (rnd_abf(rng), rnd_vbf(rng)),
        Kind::CE => (rnd_abf(rng), ValueBlindingFactor::zero()),
        Kind::EC => (AssetBlindingFactor::zero(), rnd_vbf(rng)),
    };
    let sec = TxOutSecrets::new(asset, abf, value, vbf);
    let a = match kind {
        Kind::EE | Kind::EC => confidential::Asset::Explicit(asset),
        Kind::CC | Kind::CE => confidential::Asset::new_confidential(secp, asset, abf),
    };
    let v = match kind {
        Kind::EE | Kind::CE => confidential::Value::Explicit(value),
        // amount commitment value*gen + vbf*G on the (blinded or unblinded) asset generator
        Kind::CC => confidential::Value::new_confidential(secp, value, a.commitment().unwrap(), vbf),
        Kind::EC => confidential::Value::new_confidential(secp, value, elements::secp256k1_zkp::Generator::new_unblinded(secp, asset.into_tag()), vbf),
    };
    let nonce = if kind == Kind::EE { confidential::Nonce::Null } else { confidential::Nonce::Confidential(gen::pubkey(rng)) };
    (TxOut { asset: a, value: v, nonce, script_pubkey: p2wpkh(rng), witness: TxOutWitness::default() }, sec)
}

/// parties partition the inputs; every party gets >= 1 blinded output of an asset it holds
fn scenario(secp: &Secp256k1<All>, rng: &mut R, max_in: usize, with_issuance: bool) -> Scenario {
    let rot = rng.gen_range(0..4usize);
    scenario_with(secp, rng, max_in, with_issuance, rot, None)
}

/// a fixed scenario layout: input i is of kind `kinds[i]` and belongs to party i % parties, except
/// input `unowned`, which nobody supplies; `no_explicit`: no explicit outputs and no fee (the inputs
/// equal the blinded outputs)
#[derive(Clone)]
struct Forced {
    parties: usize,
    kinds: Vec<Kind>,
    unowned: Option<usize>,
    no_explicit: bool,
}
fn forced(parties: usize, kinds: Vec<Kind>, unowned: Option<usize>) -> Option<Forced> {
    Some(Forced { parties, kinds, unowned, no_explicit: false })
}

/// `rot`: input i is of kind KINDS[(rot + i) % 4] (round robin over the lattice; 1 in 5 random);
/// `forced`: Some((parties, kinds, unowned)) fixes the number of parties and the kind of every input
/// (input i belongs to party i % parties, except input `unowned`, which nobody supplies)
fn scenario_with(secp: &Secp256k1<All>, rng: &mut R, max_in: usize, with_issuance: bool, rot: usize, forced: Option<Forced>) -> Scenario {
    let no_explicit = forced.as_ref().map(|f| f.no_explicit).unwrap_or(false);
    let nassets = if no_explicit { 1 } else { rng.gen_range(1..=3usize) };
    let assets: Vec<AssetId> = (0..nassets).map(|_| gen::asset_id(rng)).collect();
    let mut k = if rng.gen_range(0..3) == 0 { rng.gen_range(1..=max_in) } else { rng.gen_range(3.min(max_in)..=max_in) };
    let mut nparties = if rng.gen_range(0..3) == 0 { k.min(4) } else { rng.gen_range(1..=k.min(4)) };
    if let Some(f) = &forced {
        k = f.kinds.len();
        nparties = f.parties;
    }
    // surjective assignment of inputs to parties
    let mut party_of: Vec<usize> = (0..k).map(|i| if i < nparties { i } else { rng.gen_range(0..nparties) }).collect();
    for i in (1..k).rev() {
        let j = rng.gen_range(0..=i);
        party_of.swap(i, j);
    }
    if forced.is_some() {
        party_of = (0..k).map(|i| i % nparties).collect();
    }
    let mut ins = Vec::new();
    for i in 0..k {
        let a = rng.gen_range(0..nassets);
        let kind = match &forced {
            Some(f) => f.kinds[i],
            None => if rng.gen_range(0..5) == 0 { KINDS[rng.gen_range(0..4)] } else { KINDS[(rot + i) % 4] },
        };
        let val = in_value(rng);
        let (utxo, sec) = make_utxo(secp, rng, assets[a], val, kind);
        ins.push(InSpec { asset: a, sec, kind, party: Some(party_of[i]), utxo });
    }
    // an explicit input owned by nobody: its term is 0, nobody has to supply it (its party keeps another input)
    if let Some(Forced { unowned: Some(u), .. }) = &forced {
        ins[*u].party = None;
    }
    if forced.is_none() && rng.gen_range(0..5) == 0 {
        if let Some(i) = (0..k).find(|&i| ins[i].kind == Kind::EE && ins.iter().filter(|x| x.party == ins[i].party).count() >= 2) {
            ins[i].party = None;
        }
    }
    // slots per asset
    let mut slots: Vec<Vec<Option<usize>>> = vec![vec![]; nassets]; // Some(party) = blinded by party, None = explicit
    for p in 0..nparties {
        let held: Vec<usize> = {
            let mut h: Vec<usize> = ins.iter().filter(|i| i.party == Some(p)).map(|i| i.asset).collect();
            h.sort();
            h.dedup();
            h
        };
        // at least one output, of an asset the party holds
        let first = held[rng.gen_range(0..held.len())];
        slots[first].push(Some(p));
        for &a in &held {
            let extra = match rng.gen_range(0..6) { 0 | 1 => 1, 2 => 2, _ => 0 };
            for _ in 0..extra {
                slots[a].push(Some(p));
            }
        }
    }
    let mut outs: Vec<OutSpec> = Vec::new();
    let mut fee: Option<(usize, u64)> = None;
    for a in 0..nassets {
        let total: u64 = ins.iter().filter(|i| i.asset == a).map(|i| i.sec.value).fold(0u64, |x, y| x.checked_add(y).unwrap_or(u64::MAX));
        if !ins.iter().any(|i| i.asset == a) {
            continue;
        }
        let nexp = if no_explicit { 0 } else { match rng.gen_range(0..5) { 0 => 1, 1 => 2, _ => 0 } };
        for _ in 0..nexp {
            slots[a].push(None);
        }
        let with_fee = !no_explicit && a == ins[0].asset && rng.gen_range(0..5) != 0;
        if slots[a].is_empty() && !with_fee {
            // nobody takes this asset as a blinded output: one explicit output carries it
            slots[a].push(None);
        }
        let n = slots[a].len() + with_fee as usize;
        let pieces = split(rng, total, n);
        for (j, s) in slots[a].iter().enumerate() {
            outs.push(OutSpec { asset: a, amount: pieces[j], owner: *s, recv_sk: None });
        }
        if with_fee {
            fee = Some((a, pieces[n - 1]));
        }
    }
    // shuffle outputs
    for i in (1..outs.len()).rev() {
        let j = rng.gen_range(0..=i);
        outs.swap(i, j);
    }
    let mut pset = Pset::new_v2();
    for i in &ins {
        let mut inp = pset::Input::from_prevout(OutPoint::new(Txid::from_byte_array(gen::arr32(rng)), rng.gen_range(0..4)));
        inp.witness_utxo = Some(i.utxo.clone());
        pset.add_input(inp);
    }
    // an unblinded issuance on one input: its pseudo-inputs are in everybody's surjection domain
    let mut assets = assets;
    let mut issued: Vec<(usize, u64)> = Vec::new();
    if with_issuance {
        let ii = rng.gen_range(0..k);
        let amt = rng.gen_range(10..1_000_000u64);
        {
            let inp = &mut pset.inputs_mut()[ii];
            inp.issuance_value_amount = Some(amt);
            inp.blinded_issuance = Some(if rng.gen() { 0 } else { 2 });
            if rng.gen() {
                inp.issuance_asset_entropy = Some(gen::arr32(rng));
            }
        }
        let with_token = rng.gen();
        let tok = rng.gen_range(1..5u64);
        if with_token {
            pset.inputs_mut()[ii].issuance_inflation_keys = Some(tok);
        }
        let (asset_id, token_id) = pset.inputs()[ii].issuance_ids();
        let mut new_assets = vec![(asset_id, amt)];
        if with_token {
            new_assets.push((token_id, tok));
        }
        for (aid, total) in new_assets {
            assets.push(aid);
            let a = assets.len() - 1;
            issued.push((a, total));
            // outputs of the issued asset: blinded by arbitrary parties and/or explicit
            let nb = rng.gen_range(0..=2usize).min(total as usize);
            let ne = if nb == 0 { 1 } else { rng.gen_range(0..=1usize) };
            let n = (nb + ne).min(total as usize).max(1);
            let pieces = split(rng, total, n);
            for (j, amount) in pieces.iter().enumerate() {
                let owner = if j < nb { Some(rng.gen_range(0..nparties)) } else { None };
                let pos = rng.gen_range(0..=outs.len());
                outs.insert(pos, OutSpec { asset: a, amount: *amount, owner, recv_sk: None });
            }
        }
    }
    for o in outs.iter_mut() {
        match o.owner {
            Some(p) => {
                let sk = gen::seckey(rng);
                o.recv_sk = Some(sk);
                let pk = bitcoin::PublicKey { inner: PublicKey::from_secret_key(secp, &sk), compressed: true };
                let mut po = pset::Output::new_explicit(p2wpkh(rng), o.amount, assets[o.asset], Some(pk));
                let own: Vec<usize> = (0..k).filter(|&i| ins[i].party == Some(p)).collect();
                po.blinder_index = Some(own[rng.gen_range(0..own.len())] as u32);
                pset.add_output(po);
            }
            None => {
                pset.add_output(pset::Output::new_explicit(p2wpkh(rng), o.amount, assets[o.asset], None));
            }
        }
    }
    if let Some((a, amt)) = fee {
        outs.push(OutSpec { asset: a, amount: amt, owner: None, recv_sk: None });
        pset.add_output(pset::Output::from_txout(TxOut::new_fee(amt, assets[a])));
    }
    let party_seed = (0..nparties).map(|_| rng.gen()).collect();
    Scenario { issued, assets, ins, outs, nparties, party_seed, pset }
}

impl Scenario {
    fn supplied(&self, p: usize) -> HashMap<usize, TxOutSecrets> {
        self.ins.iter().enumerate().filter(|(_, i)| i.party == Some(p)).map(|(idx, i)| (idx, i.sec)).collect()
    }
    fn utxos(&self) -> Vec<TxOut> {
        self.ins.iter().map(|i| i.utxo.clone()).collect()
    }
    fn allins(&self, am: &mut AssetMap) -> String {
        let mut v: Vec<String> = self.ins.iter().map(|i| format!("{}:{}:{}:{}", am.idx(i.sec.asset), i.sec.value, tw(&i.sec.asset_bf.into_inner()), tw(&i.sec.value_bf.into_inner()))).collect();
        for (a, amt) in &self.issued {
            v.push(format!("{}:{}:{}:{}", am.idx(self.assets[*a]), amt, tw(&ZERO_TWEAK), tw(&ZERO_TWEAK)));
        }
        join(v)
    }
}

// ---------------------------------------------------------------------------------------------
// rendering the real PSET as the model state
// ---------------------------------------------------------------------------------------------

struct AssetMap(Vec<AssetId>);
impl AssetMap {
    fn idx(&mut self, a: AssetId) -> usize {
        match self.0.iter().position(|x| *x == a) {
            Some(i) => i,
            None => {
                self.0.push(a);
                self.0.len() - 1
            }
        }
    }
}

fn join(v: Vec<String>) -> String {
    if v.is_empty() { "-".to_string() } else { v.join(",") }
}
fn b01(b: bool) -> char {
    if b { '1' } else { '0' }
}
fn opt<T: ToString>(o: Option<T>) -> String {
    o.map(|x| x.to_string()).unwrap_or_else(|| "n".to_string())
}

fn ins_str(p: &Pset, am: &mut AssetMap) -> String {
    join(
        p.inputs()
            .iter()
            .map(|i| {
                let mut s = format!("{}{}{}", b01(i.witness_utxo.is_some()), b01(i.has_issuance()), opt(i.blinded_issuance));
                // the issuance pseudo-inputs of `surjection_inputs`
                let (asset_id, token_id) = i.issuance_ids();
                if i.issuance_value_amount.is_some() || i.issuance_value_comm.is_some() {
                    s.push_str(&format!("+{}", am.idx(asset_id)));
                }
                if i.issuance_inflation_keys.is_some() || i.issuance_inflation_keys_comm.is_some() {
                    s.push_str(&format!("+{}", am.idx(token_id)));
                }
                s
            })
            .collect(),
    )
}
fn flags_str(o: &pset::Output) -> String {
    [o.amount_comm.is_some(), o.asset_comm.is_some(), o.ecdh_pubkey.is_some(), o.value_rangeproof.is_some(), o.asset_surjection_proof.is_some(), o.blind_value_proof.is_some(), o.blind_asset_proof.is_some()]
        .iter()
        .map(|b| b01(*b))
        .collect()
}
/// independent oracle (raw bytes): does the script have an address — p2pkh, p2sh, v0 witness program
/// of 20 or 32 bytes, witness program v1..v16 of 2..40 bytes
fn has_address(b: &[u8]) -> bool {
    let p2pkh = b.len() == 25 && b[0] == 0x76 && b[1] == 0xa9 && b[2] == 0x14 && b[23] == 0x88 && b[24] == 0xac;
    let p2sh = b.len() == 23 && b[0] == 0xa9 && b[1] == 0x14 && b[22] == 0x87;
    let v0 = (b.len() == 22 && b[0] == 0 && b[1] == 20) || (b.len() == 34 && b[0] == 0 && b[1] == 32);
    let v1plus = b.len() >= 4 && (0x51..=0x60).contains(&b[0]) && (2..=40).contains(&b[1]) && b.len() == b[1] as usize + 2;
    p2pkh || p2sh || v0 || v1plus
}
/// independent oracle: `Script::is_provably_unspendable` (OP_RETURN first, longer than 10000 bytes, or empty)
fn unspendable(b: &[u8]) -> bool {
    b.is_empty() || b[0] == 0x6a || b.len() > 10_000
}

fn outs_str(p: &Pset, am: &mut AssetMap) -> String {
    join(
        p.outputs()
            .iter()
            .map(|o| {
                format!(
                    "{}:{}:{}:{}:{}:{}:{}",
                    opt(o.amount),
                    opt(o.asset.map(|a| am.idx(a))),
                    b01(o.blinding_key.is_some()),
                    opt(o.blinder_index),
                    b01(has_address(o.script_pubkey.as_bytes())),
                    flags_str(o),
                    b01(unspendable(o.script_pubkey.as_bytes()))
                )
            })
            .collect(),
    )
}
fn scalars_str(p: &Pset) -> String {
    join(p.global.scalars.iter().map(tw).collect())
}
fn sup_str(sup: &HashMap<usize, TxOutSecrets>, am: &mut AssetMap) -> String {
    let mut v: Vec<(&usize, &TxOutSecrets)> = sup.iter().collect();
    v.sort_by_key(|e| *e.0);
    join(v.iter().map(|(i, s)| format!("{}:{}:{}:{}:{}", i, am.idx(s.asset), s.value, tw(&s.asset_bf.into_inner()), tw(&s.value_bf.into_inner()))).collect())
}
/// the random choices as reported by the real call; for `last` the last entry's vbf is the
/// computed one and is withheld from the model (zero)
fn rands_str(ret: &Ret, last: bool) -> String {
    let n = ret.len();
    join(
        ret.iter()
            .enumerate()
            .map(|(j, (loc, (abf, vbf, _)))| {
                let v = if last && j + 1 == n { tw(&ZERO_TWEAK) } else { tw(&vbf.into_inner()) };
                format!("{}:{}:{}", loc.input_index, tw(&abf.into_inner()), v)
            })
            .collect(),
    )
}
fn flags_all(p: &Pset) -> String {
    p.outputs().iter().map(flags_str).collect::<Vec<_>>().join(",")
}

fn err_tag(e: &PsetBlindError) -> &'static str {
    match e {
        PsetBlindError::BlindingIssuanceUnsupported(_) => "Issuance",
        PsetBlindError::BlinderIndexOutOfBounds(..) => "Index",
        PsetBlindError::AtleastOneOutputBlind => "NoOutput",
        PsetBlindError::MissingWitnessUtxo(_) => "Utxo",
        PsetBlindError::MustHaveExplicitTxOut(_) => "Explicit",
        PsetBlindError::ConfidentialTxOutError(_, ConfidentialTxOutError::ExpectedExplicitValue) => "ExplValue",
        PsetBlindError::ConfidentialTxOutError(_, ConfidentialTxOutError::ExpectedExplicitAsset) => "ExplAsset",
        PsetBlindError::ConfidentialTxOutError(_, ConfidentialTxOutError::InvalidAddress) => "Address",
        PsetBlindError::ConfidentialTxOutError(..) => "Proof",
        PsetBlindError::BlindingProofsCreationError(..) => "Proof",
        _ => "Other",
    }
}

/// one real blinding step + its `psetblind.step` correspondence op.
/// Returns Ok(ret) | Err(tag) and the flow token of the step.
fn real_step(out: &mut Out, secp: &Secp256k1<All>, last: bool, pset: &mut Pset, sup: &HashMap<usize, TxOutSecrets>, prng: &mut R, am: &mut AssetMap) -> (Result<Ret, String>, String) {
    let kind = if last { "l" } else { "n" };
    let pre_ins = ins_str(pset, am);
    let pre_outs = outs_str(pset, am);
    let pre_sc = scalars_str(pset);
    let sup_s = sup_str(sup, am);
    let n_before = pset.global.scalars.len();
    let r = std::panic::catch_unwind(std::panic::AssertUnwindSafe(|| if last { pset.blind_last(prng, secp, sup) } else { pset.blind_non_last(prng, secp, sup) }));
    let (res, rands, result): (Result<Ret, String>, String, String) = match r {
        Err(_) => {
            out.count(&format!("step.{}.panic", kind));
            (Err("panic".into()), "-".into(), "panic".into())
        }
        Ok(Err(e)) => {
            let t = err_tag(&e);
            out.count(&format!("step.{}.err.{}", kind, t));
            (Err(t.to_string()), "-".into(), format!("err {}", t))
        }
        Ok(Ok(ret)) => {
            out.count(&format!("step.{}.ok.outs{}", kind, ret.len().min(4)));
            let sel = join(ret.keys().map(|l| l.input_index.to_string()).collect());
            let s = if last {
                ret.values().last().map(|(_, v, _)| tw(&v.into_inner())).unwrap_or_else(|| "-".into())
            } else if ret.is_empty() {
                "-".to_string()
            } else {
                pset.global.scalars.last().map(tw).unwrap_or_else(|| "-".into())
            };
            if !last {
                let pushed = pset.global.scalars.len() - n_before;
                out.s("nonlast_pushes_one_scalar_iff_blinded", pushed == (!ret.is_empty()) as usize, || format!("pushed {} ret {}", pushed, ret.len()));
            }
            let rands = rands_str(&ret, last);
            let bidx = pset.outputs().iter().map(|o| opt(o.blinder_index)).collect::<Vec<_>>().join(",");
            let result = format!("ok sel={} s={} scalars={} flags={} bidx={}", sel, s, scalars_str(pset), flags_all(pset), bidx);
            (Ok(ret), rands, result)
        }
    };
    out.k(format!("psetblind.step {} {} {} {} {} {}", kind, pre_ins, pre_outs, pre_sc, sup_s, rands), result);
    (res, format!("{}/{}/{}", kind, sup_s, rands))
}

/// serialize → deserialize; Err if the decoder rejects
fn hop(out: &mut Out, pset: &Pset) -> Result<Pset, ()> {
    let b = serialize(pset);
    match deserialize::<Pset>(&b) {
        Ok(p) => {
            out.s("hop_roundtrip_identity", p == *pset, || format!("pset {}", hex(&b)));
            out.s("hop_keeps_scalar_list", p.global.scalars == pset.global.scalars, || format!("pset {}", hex(&b)));
            Ok(p)
        }
        Err(_) => Err(()),
    }
}

fn verify(secp: &Secp256k1<All>, pset: &Pset, utxos: &[TxOut]) -> bool {
    match pset.extract_tx() {
        Ok(tx) => tx.verify_tx_amt_proofs(secp, utxos).is_ok(),
        Err(_) => false,
    }
}
fn all_full(pset: &Pset) -> bool {
    pset.outputs().iter().all(|o| o.blinding_key.is_none() || o.is_fully_blinded())
}

#[derive(Clone, Copy, PartialEq, Debug)]
enum Who {
    NonLast(usize),
    Last(usize),
}

struct FlowResult {
    ok: bool,
    verify: bool,
    empty: bool,
    full: bool,
    pset: Pset,
    rets: Vec<(usize, Ret)>,
    scalars_before_last: Option<Vec<Tweak>>,
}

/// run a sequence of blinding steps on the real code with a hop after every step; emits the
/// per-step ops and the whole-flow op
fn run_flow(out: &mut Out, secp: &Secp256k1<All>, sc: &Scenario, order: &[Who], hops: bool) -> FlowResult {
    let mut am = AssetMap(sc.assets.clone());
    let mut pset = sc.pset.clone();
    let ins0 = ins_str(&pset, &mut am);
    let outs0 = outs_str(&pset, &mut am);
    let allins = sc.allins(&mut am);
    let mut tokens: Vec<String> = Vec::new();
    let mut trace: Vec<String> = Vec::new();
    let mut rets = Vec::new();
    let mut failed: Option<String> = None;
    let mut scalars_before_last = None;
    let mut prngs: Vec<R> = sc.party_seed.iter().map(|s| R::seed_from_u64(*s)).collect();
    for w in order {
        let (p, last) = match *w { Who::NonLast(p) => (p, false), Who::Last(p) => (p, true) };
        if last {
            scalars_before_last = Some(pset.global.scalars.clone());
        }
        let sup = sc.supplied(p);
        let (r, tok) = real_step(out, secp, last, &mut pset, &sup, &mut prngs[p], &mut am);
        tokens.push(tok);
        match r {
            Ok(ret) => {
                rets.push((p, ret));
                trace.push(scalars_str(&pset));
            }
            Err(t) => {
                failed = Some(if t == "panic" { format!("panic@{}", tokens.len()) } else { format!("err@{} {}", tokens.len(), t) });
                break;
            }
        }
        if hops {
            tokens.push("h".into());
            match hop(out, &pset) {
                Ok(p2) => {
                    pset = p2;
                    trace.push(scalars_str(&pset));
                }
                Err(()) => {
                    failed = Some(format!("err@{} DuplicateKey", tokens.len()));
                    break;
                }
            }
        }
    }
    let utxos = sc.utxos();
    let v = failed.is_none() && verify(secp, &pset, &utxos);
    let empty = pset.global.scalars.is_empty();
    let full = all_full(&pset);
    let result = match &failed {
        Some(f) => f.clone(),
        None => format!("ok {} verify={} empty={} full={}", trace.join(";"), b01(v), b01(empty), b01(full)),
    };
    out.k(format!("psetblind.flow {} {} {} {}", ins0, outs0, allins, tokens.join(" ")), result);
    FlowResult { ok: failed.is_none(), verify: v, empty, full, pset, rets, scalars_before_last }
}

/// the property on a finished honest flow
fn check_honest(out: &mut Out, secp: &Secp256k1<All>, sc: &Scenario, fr: &FlowResult, label: &str) {
    let ctx = || format!("{} pset {}", label, hex(&serialize(&fr.pset)));
    out.s("honest_flow_succeeds", fr.ok, ctx);
    if !fr.ok {
        return;
    }
    out.s("all_marked_fully_blinded", fr.full, ctx);
    out.s("scalars_empty_after_last", fr.empty, ctx);
    out.s("extracted_tx_verifies", fr.verify, ctx);
    let tx = match fr.pset.extract_tx() { Ok(t) => t, Err(_) => return };
    // returned blinding factors, by output index
    let mut bf: HashMap<usize, (AssetBlindingFactor, ValueBlindingFactor)> = HashMap::new();
    let mut dup = false;
    for (_, ret) in &fr.rets {
        for (loc, (a, v, _)) in ret {
            dup |= bf.insert(loc.input_index, (*a, *v)).is_some();
        }
    }
    out.s("each_marked_output_blinded_exactly_once", !dup && bf.len() == sc.outs.iter().filter(|o| o.owner.is_some()).count(), ctx);
    for (i, o) in sc.outs.iter().enumerate() {
        let po = &fr.pset.outputs()[i];
        match o.recv_sk {
            Some(sk) => {
                let u = tx.output[i].unblind(secp, sk);
                let good = match (&u, bf.get(&i)) {
                    (Ok(s), Some((a, v))) => s.asset == sc.assets[o.asset] && s.value == o.amount && s.asset_bf == *a && s.value_bf == *v,
                    _ => false,
                };
                out.s("unblinds_to_original", good, || format!("{} output {} unblind {:?}", ctx(), i, u.as_ref().map(|s| s.value).map_err(|e| e.to_string())));
                // a wrong key must not unblind to the same data
                let wrong = tx.output[i].unblind(secp, SecretKey::from_slice(&[7u8; 32]).unwrap());
                out.s("wrong_key_does_not_unblind", wrong.is_err() || wrong.map(|s| s.value != o.amount).unwrap_or(true), ctx);
                let vp = match (&po.blind_value_proof, po.asset_comm, po.amount_comm) {
                    (Some(p), Some(g), Some(c)) => p.blind_value_proof_verify(secp, o.amount, g, c) && !p.blind_value_proof_verify(secp, o.amount.wrapping_add(1), g, c),
                    _ => false,
                };
                out.s("blind_value_proof_verifies", vp, || format!("{} output {}", ctx(), i));
                let ap = match (&po.blind_asset_proof, po.asset_comm) {
                    (Some(p), Some(g)) => {
                        let other = AssetId::from_byte_array([0x55; 32]);
                        p.blind_asset_proof_verify(secp, sc.assets[o.asset], g) && !p.blind_asset_proof_verify(secp, other, g)
                    }
                    _ => false,
                };
                out.s("blind_asset_proof_verifies", ap, || format!("{} output {}", ctx(), i));
                out.s("explicit_fields_kept", po.amount == Some(o.amount) && po.asset == Some(sc.assets[o.asset]), ctx);
            }
            None => {
                out.s("explicit_output_untouched", !po.is_partially_blinded() && po.amount == Some(o.amount) && tx.output[i].value.explicit() == Some(o.amount), ctx);
            }
        }
    }
}

fn permutations(v: &[usize]) -> Vec<Vec<usize>> {
    if v.len() <= 1 {
        return vec![v.to_vec()];
    }
    let mut r = Vec::new();
    for i in 0..v.len() {
        let mut rest = v.to_vec();
        let x = rest.remove(i);
        for mut p in permutations(&rest) {
            p.insert(0, x);
            r.push(p);
        }
    }
    r
}

/// all orders (or a sample) of one scenario + negative controls; returns the number of flows run
fn one_scenario(out: &mut Out, secp: &Secp256k1<All>, rng: &mut R, sc: &Scenario, max_orders: usize) -> usize {
    let m = sc.nparties;
    out.count(&format!("scenario.parties{}", m));
    out.count(&format!("scenario.inputs{}", sc.ins.len()));
    out.count(&format!("scenario.assets{}", sc.assets.len()));
    out.count(&format!("scenario.blinded_outs{}", sc.outs.iter().filter(|o| o.owner.is_some()).count().min(7)));
    out.count(&format!("scenario.explicit_outs{}", sc.outs.iter().filter(|o| o.owner.is_none()).count().min(4)));
    for i in &sc.ins {
        out.count(&format!("scenario.inputs_kind.{}", i.kind.name()));
        if i.party.is_none() {
            out.count("scenario.input_owned_by_nobody");
        }
    }
    for p in 0..m {
        let mine: Vec<&InSpec> = sc.ins.iter().filter(|i| i.party == Some(p)).collect();
        if mine.iter().all(|i| !i.kind.nonzero_term()) {
            out.count("scenario.party_with_only_zero_term_inputs");
        }
    }
    // the surjection domain: one entry per input (Known iff its secrets were supplied) followed by
    // the input's issuance pseudo-inputs
    for p in 0..m {
        let sup = sc.supplied(p);
        let got = sc.pset.surjection_inputs(&sup);
        let mut exp: Vec<SurjectionInput> = Vec::new();
        for (i, inp) in sc.pset.inputs().iter().enumerate() {
            exp.push(match sup.get(&i) {
                Some(s) => SurjectionInput::Known { asset: s.asset, asset_bf: s.asset_bf },
                None => SurjectionInput::Unknown(sc.ins[i].utxo.asset),
            });
            if inp.has_issuance() {
                let (a, t) = inp.issuance_ids();
                if inp.issuance_value_amount.is_some() {
                    exp.push(SurjectionInput::Known { asset: a, asset_bf: AssetBlindingFactor::zero() });
                }
                if inp.issuance_inflation_keys.is_some() {
                    exp.push(SurjectionInput::Known { asset: t, asset_bf: AssetBlindingFactor::zero() });
                }
            }
        }
        out.s("surjection_domain", got.as_ref().ok() == Some(&exp), || format!("party {} pset {}", p, hex(&serialize(&sc.pset))));
    }
    out.count(if sc.issued.is_empty() { "scenario.no_issuance" } else { "scenario.with_issuance" });
    let mut orders: Vec<Vec<Who>> = Vec::new();
    for last in 0..m {
        let others: Vec<usize> = (0..m).filter(|p| *p != last).collect();
        for perm in permutations(&others) {
            let mut o: Vec<Who> = perm.iter().map(|p| Who::NonLast(*p)).collect();
            o.push(Who::Last(last));
            orders.push(o);
        }
    }
    // sample if too many (keep a deterministic spread)
    while orders.len() > max_orders {
        let j = rng.gen_range(0..orders.len());
        orders.remove(j);
    }
    let mut flows = 0;
    // per last party: scalar list (sorted) before `blind_last` and the last vbf must not depend on the order
    let mut by_last: HashMap<usize, (Vec<Tweak>, Vec<(usize, String)>)> = HashMap::new();
    for o in &orders {
        let last_p = match o.last() { Some(Who::Last(p)) => *p, _ => 0 };
        let multi = sc.outs.iter().filter(|x| x.owner == Some(last_p)).count() > 1;
        out.count(if multi { "flow.last_multi_output" } else { "flow.last_single_output" });
        // lattice coverage: kind of every owned input x role of its owner in this flow
        for i in &sc.ins {
            if let Some(p) = i.party {
                let role = if m == 1 { "single" } else if p == last_p { "last" } else { "nonlast" };
                out.count(&format!("lattice.{}.{}", i.kind.name(), role));
            }
        }
        let fr = run_flow(out, secp, sc, o, true);
        flows += 1;
        check_honest(out, secp, sc, &fr, &format!("order {:?}", o));
        if fr.ok {
            let mut sb = fr.scalars_before_last.clone().unwrap_or_default();
            sb.sort();
            let lastv: Vec<(usize, String)> = fr.rets.last().map(|(_, r)| r.iter().map(|(l, (_, v, _))| (l.input_index, tw(&v.into_inner()))).collect()).unwrap_or_default();
            match by_last.get(&last_p) {
                None => {
                    by_last.insert(last_p, (sb, lastv));
                }
                Some((sb0, lv0)) => {
                    out.s("scalar_set_independent_of_order", *sb0 == sb, || format!("order {:?}", o));
                    out.s("last_vbf_independent_of_order", *lv0 == lastv, || format!("order {:?}", o));
                }
            }
        }
    }
    // one flow without hops (the in-memory path)
    if let Some(o) = orders.first() {
        let fr = run_flow(out, secp, sc, o, false);
        flows += 1;
        check_honest(out, secp, sc, &fr, "no-hop");
    }
    flows
}

/// negative controls: expected to be rejected (verification fails or a step errors)
fn negative_controls(out: &mut Out, secp: &Secp256k1<All>, rng: &mut R, sc: &Scenario) -> usize {
    let m = sc.nparties;
    let mut flows = 0;
    let any_conf = |p: usize| sc.ins.iter().any(|i| i.party == Some(p) && i.kind.nonzero_term());
    if m >= 2 {
        // wrong order: the last blinder runs first
        let last = rng.gen_range(0..m);
        let mut o = vec![Who::Last(last)];
        o.extend((0..m).filter(|p| *p != last).map(Who::NonLast));
        let fr = run_flow(out, secp, sc, &o, true);
        flows += 1;
        let rejected = !fr.ok || !fr.verify || !fr.empty;
        out.count(if rejected { "neg.wrong_order.rejected" } else { "neg.wrong_order.accepted" });
        out.s("neg_wrong_order_rejected", !fr.ok || (!fr.verify && !fr.empty), || format!("order {:?} pset {}", o, hex(&serialize(&fr.pset))));
        // a missing non-last party
        let last = rng.gen_range(0..m);
        let others: Vec<usize> = (0..m).filter(|p| *p != last).collect();
        let miss = others[rng.gen_range(0..others.len())];
        let mut o: Vec<Who> = others.iter().filter(|p| **p != miss).map(|p| Who::NonLast(*p)).collect();
        o.push(Who::Last(last));
        let fr = run_flow(out, secp, sc, &o, true);
        flows += 1;
        out.count(if !fr.full { "neg.missing_party.not_full" } else { "neg.missing_party.full" });
        out.count(if fr.verify { "neg.missing_party.verifies(zero-term inputs)" } else { "neg.missing_party.rejected" });
        out.s("neg_missing_party_not_fully_blinded", !fr.full, || format!("order {:?}", o));
        if any_conf(miss) {
            out.s("neg_missing_party_rejected", !fr.verify, || format!("order {:?} pset {}", o, hex(&serialize(&fr.pset))));
        }
        // a non-last party blinding twice: the second call must error
        let twice = others[rng.gen_range(0..others.len())];
        let mut o: Vec<Who> = vec![Who::NonLast(twice)];
        o.extend(others.iter().map(|p| Who::NonLast(*p)));
        o.push(Who::Last(last));
        let fr = run_flow(out, secp, sc, &o, true);
        flows += 1;
        out.count(if !fr.ok { "neg.nonlast_twice.errors" } else { "neg.nonlast_twice.ok" });
        out.s("neg_nonlast_twice_errors", !fr.ok, || format!("order {:?}", o));
    }
    // the last blinder running twice
    let last = rng.gen_range(0..m);
    let mut o: Vec<Who> = (0..m).filter(|p| *p != last).map(Who::NonLast).collect();
    o.push(Who::Last(last));
    o.push(Who::Last(last));
    let fr = run_flow(out, secp, sc, &o, true);
    flows += 1;
    out.count(if !fr.ok { "neg.last_twice.errors" } else if fr.verify { "neg.last_twice.verifies" } else { "neg.last_twice.rejected" });
    // re-blinding with fresh randomness and no scalars left: balanced only if the last party's own terms
    // alone balance, i.e. there was nothing published by others and the party has a single output
    if m >= 2 && (0..m).filter(|p| *p != last).any(any_conf) {
        out.s("neg_last_twice_rejected", !fr.ok || !fr.verify, || format!("order {:?} pset {}", o, hex(&serialize(&fr.pset))));
    }
    flows
}

// ---------------------------------------------------------------------------------------------
// error paths of blind_checks / the per-output checks (hand-made + injected)
// ---------------------------------------------------------------------------------------------

fn op_return() -> Script {
    Script::from(vec![0x6a, 0x01, 0x00])
}

fn error_cases(out: &mut Out, secp: &Secp256k1<All>, rng: &mut R, n: usize) {
    for case in 0..n {
        let mut sc = scenario(secp, rng, 4, false);
        let m = sc.nparties;
        let p = rng.gen_range(0..m);
        let kind = case % 14;
        let owned: Vec<usize> = sc.outs.iter().enumerate().filter(|(_, o)| o.owner == Some(p)).map(|(i, _)| i).collect();
        let keyless: Vec<usize> = sc.outs.iter().enumerate().filter(|(_, o)| o.owner.is_none()).map(|(i, _)| i).collect();
        let oi = owned[rng.gen_range(0..owned.len())];
        let nin = sc.ins.len();
        let name = match kind {
            0 => {
                sc.pset.outputs_mut()[oi].blinder_index = Some(nin as u32 + rng.gen_range(0..3));
                "index_oob"
            }
            1 => {
                let i = rng.gen_range(0..nin);
                sc.pset.inputs_mut()[i].issuance_value_amount = Some(rng.gen_range(1..1000));
                sc.pset.inputs_mut()[i].blinded_issuance = match rng.gen_range(0..4) { 0 => None, 1 => Some(1), 2 => Some(0), _ => Some(2) };
                "issuance"
            }
            2 => {
                let i = rng.gen_range(0..nin);
                sc.pset.inputs_mut()[i].witness_utxo = None;
                "missing_utxo"
            }
            3 => {
                sc.pset.outputs_mut()[oi].script_pubkey = if rng.gen() { op_return() } else { Script::from(gen::bytes(rng, 7)) };
                "not_addressable"
            }
            4 => {
                sc.pset.outputs_mut()[oi].amount = None;
                "amount_none"
            }
            5 => {
                sc.pset.outputs_mut()[oi].asset = None;
                "asset_none"
            }
            6 => {
                sc.pset.outputs_mut()[oi].amount = Some(0);
                "amount_zero"
            }
            7 => {
                sc.pset.outputs_mut()[oi].asset = Some(gen::asset_id(rng));
                "foreign_asset"
            }
            8 => {
                if let Some(&ki) = keyless.first() {
                    sc.pset.outputs_mut()[ki].amount = None;
                }
                "keyless_amount_none"
            }
            9 => {
                // key but no blinder index: nobody blinds it
                sc.pset.outputs_mut()[oi].blinder_index = None;
                "no_blinder_index"
            }
            10 => {
                // out-of-bounds index on an output without key is ignored
                if let Some(&ki) = keyless.first() {
                    sc.pset.outputs_mut()[ki].blinder_index = Some(99);
                }
                "keyless_index_oob_ignored"
            }
            11 => {
                // the party supplies nothing
                "empty_supplied"
            }
            12 => {
                // blinding key removed: becomes an explicit output
                sc.pset.outputs_mut()[oi].blinding_key = None;
                "key_removed"
            }
            _ => {
                // pre-existing commitment on an owned output
                sc.pset.outputs_mut()[oi].amount_comm = Some(gen::commitment(rng));
                "amount_comm_present"
            }
        };
        out.count(&format!("errcase.{}", name));
        let mut am = AssetMap(sc.assets.clone());
        for last in [false, true] {
            let mut pset = sc.pset.clone();
            let sup = if kind == 11 { HashMap::new() } else { sc.supplied(p) };
            let mut prng = R::seed_from_u64(sc.party_seed[p]);
            let (r, _) = real_step(out, secp, last, &mut pset, &sup, &mut prng, &mut am);
            out.count(&format!("errcase.{}.{}.{}", name, if last { "last" } else { "nonlast" }, match &r { Ok(_) => "ok".to_string(), Err(t) => t.clone() }));
        }
    }
}

// ---------------------------------------------------------------------------------------------
// scalar layer: ValueBlindingFactor::last, +=, neg; scalar keys on the wire
// ---------------------------------------------------------------------------------------------

const N_ORDER: [u8; 32] = [
    0xFF, 0xFF, 0xFF, 0xFF, 0xFF, 0xFF, 0xFF, 0xFF, 0xFF, 0xFF, 0xFF, 0xFF, 0xFF, 0xFF, 0xFF, 0xFE, 0xBA, 0xAE, 0xDC, 0xE6, 0xAF, 0x48, 0xA0, 0x3B, 0xBF, 0xD2, 0x5E, 0x8C, 0xD0, 0x36, 0x41, 0x41,
];

fn edge_tweak(rng: &mut R) -> Tweak {
    match rng.gen_range(0..8) {
        0 => ZERO_TWEAK,
        1 => {
            let mut b = [0u8; 32];
            b[31] = rng.gen_range(1..4);
            Tweak::from_slice(&b).unwrap()
        }
        2 => {
            // n - small
            let mut b = N_ORDER;
            b[31] -= rng.gen_range(1..4);
            Tweak::from_slice(&b).unwrap()
        }
        _ => gen::tweak(rng),
    }
}

fn neg_tweak(t: &Tweak) -> Tweak {
    if *t == ZERO_TWEAK {
        return *t;
    }
    let sk = SecretKey::from_slice(t.as_ref()).unwrap().negate();
    Tweak::from_slice(sk.as_ref()).unwrap()
}

fn scalar_ops(out: &mut Out, secp: &Secp256k1<All>, rng: &mut R, n: usize) {
    for i in 0..n {
        // last
        let ni = rng.gen_range(0..4usize);
        let no = rng.gen_range(0..4usize);
        let mk = |rng: &mut R| {
            let v = if rng.gen_range(0..4) == 0 { gen::u64_edge(rng) } else { rng.gen_range(0..1u64 << 50) };
            (v, AssetBlindingFactor::from_slice(edge_tweak(rng).as_ref()).unwrap(), ValueBlindingFactor::from_slice(edge_tweak(rng).as_ref()).unwrap())
        };
        let ins: Vec<_> = (0..ni).map(|_| mk(rng)).collect();
        let outs: Vec<_> = (0..no).map(|_| mk(rng)).collect();
        let (v, abf, _) = mk(rng);
        let f = |l: &Vec<(u64, AssetBlindingFactor, ValueBlindingFactor)>| join(l.iter().map(|(v, a, b)| format!("0:{}:{}:{}", v, tw(&a.into_inner()), tw(&b.into_inner()))).collect());
        let res = Out::guard(|| format!("ok {}", tw(&ValueBlindingFactor::last(secp, v, abf, &ins, &outs).into_inner())));
        out.k(format!("psetblind.last {} {} {} {}", v, tw(&abf.into_inner()), f(&ins), f(&outs)), res);
        // += and neg, including a + (n - a) = 0
        let a = edge_tweak(rng);
        let b = if i % 5 == 0 { neg_tweak(&a) } else { edge_tweak(rng) };
        let res = Out::guard(|| {
            let mut x = ValueBlindingFactor::from_slice(a.as_ref()).unwrap();
            x += ValueBlindingFactor::from_slice(b.as_ref()).unwrap();
            let n = -ValueBlindingFactor::from_slice(a.as_ref()).unwrap();
            format!("ok {} {}", tw(&x.into_inner()), tw(&n.into_inner()))
        });
        out.k(format!("psetblind.addneg {} {}", tw(&a), tw(&b)), res);
        // scalars on the wire
        let k = rng.gen_range(0..5usize);
        let mut sc: Vec<Tweak> = (0..k).map(|_| edge_tweak(rng)).collect();
        if k >= 2 && rng.gen_range(0..3) == 0 {
            let j = rng.gen_range(0..k - 1);
            sc[k - 1] = sc[j];
        }
        let mut p = Pset::new_v2();
        p.global.scalars = sc.clone();
        let mut sorted = sc.clone();
        sorted.sort();
        sorted.dedup();
        let has_dup = sorted.len() != sc.len();
        out.count(if has_dup { "hop.with_duplicate" } else { "hop.distinct" });
        let res = Out::guard(|| match deserialize::<Pset>(&serialize(&p)) {
            Ok(q) => format!("ok {}", scalars_str(&q)),
            Err(_) => "err".to_string(),
        });
        out.s("hop_rejects_iff_duplicate_scalar", (res == "err") == has_dup, || format!("scalars {}", join(sc.iter().map(tw).collect())));
        out.k(format!("psetblind.hop {}", join(sc.iter().map(tw).collect())), res);
    }
}

/// two symmetric parties using the SAME randomness publish the same scalar; the wire format keeps
/// scalars as map keys, so the next decode fails (the real code's reaction to coinciding scalars)
fn twin_parties(out: &mut Out, secp: &Secp256k1<All>, rng: &mut R) {
    let asset = gen::asset_id(rng);
    let (u0, s0) = make_utxo(secp, rng, asset, 5000, Kind::CC);
    // second input with the same secrets
    let u1 = u0.clone();
    let s1 = s0;
    let mut pset = Pset::new_v2();
    for u in [&u0, &u1] {
        let mut inp = pset::Input::from_prevout(OutPoint::new(Txid::from_byte_array(gen::arr32(rng)), 0));
        inp.witness_utxo = Some(u.clone());
        pset.add_input(inp);
    }
    let sk = gen::seckey(rng);
    let pk = bitcoin::PublicKey { inner: PublicKey::from_secret_key(secp, &sk), compressed: true };
    let spk = p2wpkh(rng);
    for i in 0..2u32 {
        let mut o = pset::Output::new_explicit(spk.clone(), 5000, asset, Some(pk));
        o.blinder_index = Some(i);
        pset.add_output(o);
    }
    let mut am = AssetMap(vec![asset]);
    let seed: u64 = rng.gen();
    for (i, s) in [(0usize, s0), (1usize, s1)] {
        let mut sup = HashMap::new();
        sup.insert(i, s);
        let mut prng = R::seed_from_u64(seed);
        let _ = real_step(out, secp, false, &mut pset, &sup, &mut prng, &mut am);
    }
    let same = pset.global.scalars.len() == 2 && pset.global.scalars[0] == pset.global.scalars[1];
    out.count(if same { "twin.same_scalar" } else { "twin.different_scalars" });
    let dec = deserialize::<Pset>(&serialize(&pset));
    out.count(if dec.is_err() { "twin.decode_rejected" } else { "twin.decode_ok" });
    out.s("twin_equal_scalars_rejected_on_decode", !same || dec.is_err(), || hex(&serialize(&pset)));
    out.k(format!("psetblind.hop {}", scalars_str(&pset)), match dec { Ok(q) => format!("ok {}", scalars_str(&q)), Err(_) => "err".into() });
}

/// regression (fixed in /repo by 17ff2cc): `blind_last` on an output of amount 0 whose balancing vbf
/// is 0 (all supplied inputs explicit, no scalars) used to reach `PedersenCommitment::new(0, 0, gen)`
/// — the point at infinity — and panic inside secp256k1-zkp; now every amount below
/// `TxOut::RANGEPROOF_MIN_VALUE` is an `Err` before committing. Both variants must be plain errors.
fn zero_amount_last(out: &mut Out, secp: &Secp256k1<All>, rng: &mut R) {
    for with_scalar in [false, true] {
        let asset = gen::asset_id(rng);
        let (u0, s0) = make_utxo(secp, rng, asset, 1000, Kind::EE);
        let mut pset = Pset::new_v2();
        let mut inp = pset::Input::from_prevout(OutPoint::new(Txid::from_byte_array(gen::arr32(rng)), 0));
        inp.witness_utxo = Some(u0);
        pset.add_input(inp);
        let sk = gen::seckey(rng);
        let pk = bitcoin::PublicKey { inner: PublicKey::from_secret_key(secp, &sk), compressed: true };
        let mut o = pset::Output::new_explicit(p2wpkh(rng), 0, asset, Some(pk));
        o.blinder_index = Some(0);
        pset.add_output(o);
        pset.add_output(pset::Output::new_explicit(p2wpkh(rng), 1000, asset, None));
        if with_scalar {
            // a published scalar makes the balancing vbf non-zero: plain error
            pset.global.scalars.push(gen::tweak(rng));
        }
        let mut am = AssetMap(vec![asset]);
        let mut sup = HashMap::new();
        sup.insert(0usize, s0);
        let mut prng = R::seed_from_u64(rng.gen());
        let (r, _) = real_step(out, secp, true, &mut pset, &sup, &mut prng, &mut am);
        out.count(&format!("regress.zero_amount_last.{}.{}", if with_scalar { "vbf_nonzero" } else { "vbf_zero" }, match &r { Ok(_) => "ok".to_string(), Err(t) => t.clone() }));
        out.s("zero_amount_is_an_error_not_a_panic", r != Err("panic".to_string()), || format!("with_scalar {} result {:?}", with_scalar, r.as_ref().map(|_| ())));
        out.pin("zero_amount_error_variant", r == Err("Proof".to_string()), || format!("with_scalar {} result {:?}", with_scalar, r.as_ref().map(|_| ())));
    }
}


// ---------------------------------------------------------------------------------------------
// post-processing of a scenario: insert / split outputs, scripts of every address kind, zero outputs
// ---------------------------------------------------------------------------------------------

/// rebuild the PSET with `po` inserted at output position `pos`
fn insert_output(sc: &mut Scenario, pos: usize, spec: OutSpec, po: pset::Output) {
    let mut pset = Pset::new_v2();
    for i in sc.pset.inputs() {
        pset.add_input(i.clone());
    }
    let mut outs: Vec<pset::Output> = sc.pset.outputs().to_vec();
    outs.insert(pos, po);
    for o in outs {
        pset.add_output(o);
    }
    sc.pset = pset;
    sc.outs.insert(pos, spec);
}

/// split a blinded output of `party` in two (same owner, same blinder index, fresh receiver key), so
/// that the party has a non-final and a final output; false if it has no output of amount >= 2
fn split_output(sc: &mut Scenario, secp: &Secp256k1<All>, rng: &mut R, party: usize) -> bool {
    let idx = match (0..sc.outs.len()).find(|&i| sc.outs[i].owner == Some(party) && sc.outs[i].amount >= 2) {
        Some(i) => i,
        None => return false,
    };
    let amt = sc.outs[idx].amount;
    let a1 = rng.gen_range(1..amt);
    sc.outs[idx].amount = amt - a1;
    sc.pset.outputs_mut()[idx].amount = Some(amt - a1);
    let sk = gen::seckey(rng);
    let pk = bitcoin::PublicKey { inner: PublicKey::from_secret_key(secp, &sk), compressed: true };
    let mut po = pset::Output::new_explicit(p2wpkh(rng), a1, sc.assets[sc.outs[idx].asset], Some(pk));
    po.blinder_index = sc.pset.outputs()[idx].blinder_index;
    let spec = OutSpec { asset: sc.outs[idx].asset, amount: a1, owner: Some(party), recv_sk: Some(sk) };
    let pos = rng.gen_range(0..=sc.outs.len());
    insert_output(sc, pos, spec, po);
    true
}

/// a script built from RAW BYTES: `(name, bytes)`
type Shape = (String, Vec<u8>);

fn witprog(rng: &mut R, ver: u8, len: usize) -> Shape {
    let mut v = vec![if ver == 0 { 0 } else { 0x50 + ver }, len as u8];
    v.extend(gen::bytes(rng, len));
    (format!("wv{}_{}", ver, len), v)
}
fn p2pkh_raw(rng: &mut R) -> Shape {
    let mut v = vec![0x76, 0xa9, 0x14];
    v.extend(gen::bytes(rng, 20));
    v.extend([0x88, 0xac]);
    ("p2pkh".into(), v)
}
fn p2sh_raw(rng: &mut R) -> Shape {
    let mut v = vec![0xa9, 0x14];
    v.extend(gen::bytes(rng, 20));
    v.push(0x87);
    ("p2sh".into(), v)
}

/// scripts that have an address: p2pkh, p2sh, v0 (20, 32), every witness version 1..16 with standard
/// and non-standard program lengths
fn address_shapes(rng: &mut R, thorough: bool) -> Vec<Box<dyn Fn(&mut R) -> Shape>> {
    let mut v: Vec<Box<dyn Fn(&mut R) -> Shape>> = vec![
        Box::new(p2pkh_raw),
        Box::new(p2sh_raw),
        Box::new(|r| witprog(r, 0, 20)),
        Box::new(|r| witprog(r, 0, 32)),
        Box::new(|r| witprog(r, 1, 32)),
        Box::new(|r| witprog(r, 16, 2)),
        Box::new(|r| witprog(r, 16, 40)),
        Box::new(|r| witprog(r, 16, 32)),
    ];
    let lens_all = [2usize, 3, 20, 31, 32, 33, 39, 40];
    for ver in 1..=16u8 {
        if thorough {
            for &l in &lens_all {
                v.push(Box::new(move |r| witprog(r, ver, l)));
            }
        } else {
            // one non-standard length per version, different every run
            let l = match rng.gen_range(0..4) { 0 => 2, 1 => 40, 2 => rng.gen_range(3..32), _ => rng.gen_range(33..40) };
            v.push(Box::new(move |r| witprog(r, ver, l)));
        }
    }
    v
}

/// scripts WITHOUT an address (near misses of the address forms and unrelated scripts)
fn no_address_shapes(rng: &mut R) -> Vec<Shape> {
    let named = |n: &str, b: Vec<u8>| (n.to_string(), b);
    let mut v = vec![];
    for l in [2usize, 19, 21, 33, 40] {
        let (n, b) = witprog(rng, 0, l);
        v.push((format!("noaddr_{}", n), b));
    }
    v.push(named("noaddr_wv1_1", { let mut b = vec![0x51, 1]; b.extend(gen::bytes(rng, 1)); b }));
    v.push(named("noaddr_wv16_41", { let mut b = vec![0x60, 41]; b.extend(gen::bytes(rng, 41)); b }));
    v.push(named("noaddr_wv16_len_mismatch", { let mut b = vec![0x60, 32]; b.extend(gen::bytes(rng, 31)); b }));
    v.push(named("noaddr_wv1_trailing", { let mut b = vec![0x51, 32]; b.extend(gen::bytes(rng, 33)); b }));
    v.push(named("noaddr_op61_ver17", { let mut b = vec![0x61, 20]; b.extend(gen::bytes(rng, 20)); b }));
    v.push(named("noaddr_op4f_1negate", { let mut b = vec![0x4f, 20]; b.extend(gen::bytes(rng, 20)); b }));
    v.push(named("noaddr_wv16_pushdata1", { let mut b = vec![0x60, 0x4c, 32]; b.extend(gen::bytes(rng, 32)); b }));
    v.push(named("noaddr_p2pkh_wrong_tail", { let mut b = p2pkh_raw(rng).1; b[24] = 0xad; b }));
    v.push(named("noaddr_p2sh_wrong_tail", { let mut b = p2sh_raw(rng).1; b[22] = 0x88; b }));
    v.push(named("noaddr_p2pk", { let mut b = vec![33]; b.extend(gen::pubkey(rng).serialize()); b.push(0xac); b }));
    v.push(named("noaddr_op_return", vec![0x6a, 0x01, 0x00]));
    v.push(named("noaddr_empty", vec![]));
    v.push(named("noaddr_random", gen::bytes(rng, 7)));
    v
}

/// (1) output scripts of every address kind in every party role. Two parties; party 1 gets a second
/// output; ALL blinded outputs carry a script of the shape; both orders (so every output is blinded once
/// by a non-last party through `blind_non_last`, once as a non-final output of the last party through
/// the inner `blind_non_last`, or as its final output through `blind_last`) plus the flow without hops.
/// `check_honest` then demands: flow succeeds, extracted tx verifies (the range proof commits to the
/// script), the receiver unblinds.
fn script_scenarios(out: &mut Out, secp: &Secp256k1<All>, rng: &mut R, thorough: bool) -> usize {
    let mut flows = 0;
    let shapes = address_shapes(rng, thorough);
    for (n, mk) in shapes.iter().enumerate() {
        let kinds = vec![KINDS[n % 4], KINDS[(n + 1) % 4]];
        let mut sc = scenario_with(secp, rng, 2, false, 0, forced(2, kinds, None));
        let split_ok = split_output(&mut sc, secp, rng, 1) || split_output(&mut sc, secp, rng, 0);
        let mut name = String::new();
        for i in 0..sc.outs.len() {
            if sc.outs[i].owner.is_some() {
                let (nm, bytes) = mk(rng);
                let script = Script::from(bytes.clone());
                // the address machinery on this script, judged against the raw-byte oracle
                let addr = Address::from_script(&script, None, &AddressParams::ELEMENTS);
                out.s("address_oracle_agrees", addr.is_some() == has_address(&bytes), || format!("script {}", hex(&bytes)));
                out.s("address_script_roundtrip", addr.as_ref().map(|a| a.script_pubkey() == script).unwrap_or(false), || format!("script {}", hex(&bytes)));
                sc.pset.outputs_mut()[i].script_pubkey = script;
                name = nm;
            }
        }
        out.count(&format!("script.{}", name));
        // roles: with two parties and both orders every owner is last once and non-last once
        for i in 0..sc.outs.len() {
            if let Some(p) = sc.outs[i].owner {
                let final_of_p = (0..sc.outs.len()).filter(|&j| sc.outs[j].owner == Some(p)).max() == Some(i);
                out.count(&format!("script_role.{}.nonlast_party", name));
                out.count(&format!("script_role.{}.{}", name, if final_of_p { "last_final(blind_last)" } else { "last_nonfinal(blind_non_last)" }));
            }
        }
        if !split_ok {
            out.count("script.split_impossible");
        }
        flows += one_scenario(out, secp, rng, &sc, 6);
    }
    // scripts without an address: `blind_non_last` must give the documented error (InvalidAddress), not a
    // panic; `blind_last` does not need an address and must produce a verifying, unblindable output
    for (name, bytes) in no_address_shapes(rng) {
        let script = Script::from(bytes.clone());
        let addr = Address::from_script(&script, None, &AddressParams::ELEMENTS);
        out.s("address_oracle_agrees", addr.is_some() == has_address(&bytes), || format!("script {}", hex(&bytes)));
        out.count(&format!("script.{}", name));
        // non-last step of a two-party scenario
        let mut sc = scenario_with(secp, rng, 2, false, 0, forced(2, vec![Kind::CC, Kind::CE], None));
        for i in 0..sc.outs.len() {
            if sc.outs[i].owner.is_some() {
                sc.pset.outputs_mut()[i].script_pubkey = script.clone();
            }
        }
        let mut am = AssetMap(sc.assets.clone());
        let mut pset = sc.pset.clone();
        let mut prng = R::seed_from_u64(sc.party_seed[0]);
        let (r, _) = real_step(out, secp, false, &mut pset, &sc.supplied(0), &mut prng, &mut am);
        out.s("script_without_address_is_the_documented_error", r == Err("Address".to_string()), || format!("script {} result {:?}", hex(&bytes), r.as_ref().map(|_| ())));
        out.count(&format!("script_role.{}.nonlast.{}", name, match &r { Ok(_) => "ok".to_string(), Err(t) => t.clone() }));
        // single party, single blinded output: `blind_last` only
        let kd = KINDS[rng.gen_range(0..4)];
        let mut sc = scenario_with(secp, rng, 1, false, 0, forced(1, vec![kd], None));
        // only the party's FINAL output gets the script: the others go through the inner `blind_non_last`
        if let Some(fin) = (0..sc.outs.len()).filter(|&i| sc.outs[i].owner.is_some()).max() {
            sc.pset.outputs_mut()[fin].script_pubkey = script.clone();
            out.count(&format!("script_role.{}.last_final(blind_last)", name));
            flows += one_scenario(out, secp, rng, &sc, 6);
        }
    }
    flows
}

#[derive(Clone, Copy, Debug, PartialEq)]
enum Zero {
    /// fee output: empty script, value 0
    Fee,
    /// OP_RETURN script, value 0
    OpReturn,
    /// script longer than MAX_SCRIPT_SIZE (10000 bytes), value 0
    Long,
    /// value 0 on an ordinary spendable script: `verify_tx_amt_proofs` rejects (NonUnspendableZeroValue)
    Spendable,
}
impl Zero {
    fn name(self) -> &'static str {
        match self { Zero::Fee => "fee0", Zero::OpReturn => "opreturn0", Zero::Long => "long0", Zero::Spendable => "spendable0" }
    }
}

/// add an explicit output of amount exactly 0 at a random position
fn add_zero_output(sc: &mut Scenario, rng: &mut R, z: Zero) {
    let a = rng.gen_range(0..sc.assets.len());
    let po = match z {
        Zero::Fee => pset::Output::from_txout(TxOut::new_fee(0, sc.assets[a])),
        Zero::OpReturn => {
            let mut b = vec![0x6a];
            let n = rng.gen_range(0..40usize);
            if n > 0 {
                b.push(n as u8);
                b.extend(gen::bytes(rng, n));
            }
            pset::Output::new_explicit(Script::from(b), 0, sc.assets[a], None)
        }
        Zero::Long => {
            let n = 10_001 + rng.gen_range(0..50usize);
            pset::Output::new_explicit(Script::from(vec![0x51u8; n]), 0, sc.assets[a], None)
        }
        Zero::Spendable => pset::Output::new_explicit(p2wpkh(rng), 0, sc.assets[a], None),
    };
    let pos = rng.gen_range(0..=sc.outs.len());
    insert_output(sc, pos, OutSpec { asset: a, amount: 0, owner: None, recv_sk: None }, po);
}

/// (2) explicit outputs of amount exactly 0 in every split / order of blinders
fn zero_scenarios(out: &mut Out, secp: &Secp256k1<All>, rng: &mut R) -> usize {
    let mut flows = 0;
    for (n, z) in [Zero::Fee, Zero::OpReturn, Zero::Long].iter().enumerate() {
        // three parties, all orders; the zero fee variant has no other explicit output and no other fee:
        // the inputs equal the blinded outputs
        let kinds = vec![KINDS[n % 4], KINDS[(n + 1) % 4], KINDS[(n + 2) % 4], KINDS[(n + 3) % 4]];
        let f = Forced { parties: 3, kinds, unowned: None, no_explicit: *z == Zero::Fee };
        let mut sc = scenario_with(secp, rng, 4, false, 0, Some(f));
        add_zero_output(&mut sc, rng, *z);
        out.count(&format!("zero.{}", z.name()));
        out.count(&format!("zero.{}.deterministic_3_parties", z.name()));
        flows += one_scenario(out, secp, rng, &sc, 6);
        // single party
        let mut sc = scenario_with(secp, rng, 1, false, 0, forced(1, vec![KINDS[(n + 1) % 4]], None));
        add_zero_output(&mut sc, rng, *z);
        out.count(&format!("zero.{}", z.name()));
        out.count(&format!("zero.{}.single_party", z.name()));
        flows += one_scenario(out, secp, rng, &sc, 6);
    }
    // all three accepted shapes at once
    let mut sc = scenario_with(secp, rng, 3, false, 0, forced(2, vec![Kind::CE, Kind::CC, Kind::EC], None));
    for z in [Zero::Long, Zero::Fee, Zero::OpReturn] {
        add_zero_output(&mut sc, rng, z);
        out.count(&format!("zero.{}", z.name()));
    }
    out.count("zero.all_three");
    flows += one_scenario(out, secp, rng, &sc, 6);
    // what the unchanged code rejects: value 0 on a spendable script. Blinding works, verification refuses.
    let mut sc = scenario_with(secp, rng, 2, false, 0, forced(2, vec![Kind::CC, Kind::CE], None));
    add_zero_output(&mut sc, rng, Zero::Spendable);
    out.count("zero.spendable0");
    for order in [vec![Who::NonLast(0), Who::Last(1)], vec![Who::NonLast(1), Who::Last(0)]] {
        let fr = run_flow(out, secp, &sc, &order, true);
        flows += 1;
        out.s("zero_on_spendable_script: blinding succeeds", fr.ok && fr.full && fr.empty, || format!("order {:?}", order));
        out.s("zero_on_spendable_script: verification rejects", !fr.verify, || format!("order {:?} pset {}", order, hex(&serialize(&fr.pset))));
        out.count(if fr.verify { "zero.spendable0.verifies" } else { "zero.spendable0.rejected" });
    }
    flows
}

/// every UTXO kind of the (asset, amount) lattice as the owned input of a single party, of the last
/// party and of a non-last party (all orders), deterministically at the start of every run.
/// (Seeded change C09-w2m1: dropping inputs with vbf = 0 from `inp_secrets` loses the term
/// value*abf of a CE input: wrong published scalar / last vbf, BalanceCheckFailed.)
fn lattice_scenarios(out: &mut Out, secp: &Secp256k1<All>, rng: &mut R) -> usize {
    let mut flows = 0;
    for (j, kind) in KINDS.iter().enumerate() {
        // one party, one input
        let sc = scenario_with(secp, rng, 1, false, 0, forced(1, vec![*kind], None));
        flows += one_scenario(out, secp, rng, &sc, 6);
        // two parties: party 0 owns this kind, party 1 the next one; both orders
        let other = KINDS[(j + 1) % 4];
        let sc = scenario_with(secp, rng, 2, false, 0, forced(2, vec![*kind, other], None));
        flows += one_scenario(out, secp, rng, &sc, 6);
        if j % 2 == 0 {
            flows += negative_controls(out, secp, rng, &sc);
        }
    }
    // a party whose inputs are all EE next to parties with mixed kinds (3 parties, 6 inputs), and an
    // explicit input that nobody supplies (input 3; its party 0 keeps input 0)
    let sc = scenario_with(secp, rng, 6, false, 0, forced(3, vec![Kind::EE, Kind::CE, Kind::EC, Kind::EE, Kind::CC, Kind::CE], Some(3)));
    flows += one_scenario(out, secp, rng, &sc, 6);
    flows
}

/// Parties may join a PSET by INSERTING their inputs anywhere (`insert_input`), not only by appending: every output
/// must keep pointing at the SAME input as its blinder ("updates … the blinder index that might have shifted"), and
/// the declared input count must follow — otherwise an output silently becomes another party's to blind.
fn insertion_keeps_blinders(out: &mut Out, rng: &mut R) {
    for n in 1usize..=4 {
        for pos in 0..=n {
            let mut p = Pset::new_v2();
            for _ in 0..n {
                p.add_input(pset::Input::from_prevout(elements::OutPoint::new(elements::Txid::from_byte_array(gen::arr32(rng)), rng.gen_range(0..4))));
            }
            let asset = gen::asset_id(rng);
            // one output per input index, plus one unmarked output
            for i in 0..n {
                let mut spk = vec![0x00, 0x14]; spk.extend(gen::bytes(rng, 20));
                let mut o = pset::Output::new_explicit(elements::Script::from(spk), 1000 + i as u64, asset, Some(bitcoin::PublicKey::new(bitcoin::secp256k1::PublicKey::from_slice(&gen::pubkey(rng).serialize()).unwrap())));
                o.blinder_index = Some(i as u32);
                p.add_output(o);
            }
            p.add_output(pset::Output::new_explicit(elements::Script::new(), 7, asset, None));
            let owner: Vec<Option<elements::Txid>> = p.outputs().iter().map(|o| o.blinder_index.map(|i| p.inputs()[i as usize].previous_txid)).collect();
            let r = std::panic::catch_unwind(std::panic::AssertUnwindSafe(|| {
                let mut q = p.clone();
                q.insert_input(pset::Input::from_prevout(elements::OutPoint::new(elements::Txid::from_byte_array(gen::arr32(rng)), 0)), pos);
                q
            }));
            out.count("insert_input.cases");
            match r {
                Err(_) => out.s("insert_input_in_range_never_panics", false, || format!("n={} pos={}", n, pos)),
                Ok(q) => {
                    let now: Vec<Option<elements::Txid>> = q.outputs().iter().map(|o| o.blinder_index.and_then(|i| q.inputs().get(i as usize).map(|x| x.previous_txid))).collect();
                    out.s("insert_input_keeps_every_outputs_blinder", now == owner, || format!("{} inputs, insertion at {}: blinder indices before {:?} after {:?}", n, pos, p.outputs().iter().map(|o| o.blinder_index).collect::<Vec<_>>(), q.outputs().iter().map(|o| o.blinder_index).collect::<Vec<_>>()));
                    out.s("insert_input_updates_the_count", q.n_inputs() == q.inputs().len() && q.inputs().len() == n + 1, || format!("n={} pos={} n_inputs={}", n, pos, q.n_inputs()));
                }
            }
        }
    }
}

pub fn run(rng: &mut R, out: &mut Out) {
    let secp = Secp256k1::new();
    let thorough = out.tier_thorough;
    insertion_keeps_blinders(out, rng);
    // regression corpus first: the two-party coinjoin shape, single party single output, twin parties
    twin_parties(out, &secp, rng);
    zero_amount_last(out, &secp, rng);
    scalar_ops(out, &secp, rng, if thorough { 1500 } else { 150 });
    error_cases(out, &secp, rng, if thorough { 280 } else { 28 });
    let budget = if thorough { 1500 } else { 95 };
    let mut flows = lattice_scenarios(out, &secp, rng);
    out.count_n("flows.lattice", flows as u64);
    let fs = script_scenarios(out, &secp, rng, thorough);
    out.count_n("flows.scripts", fs as u64);
    let fz = zero_scenarios(out, &secp, rng);
    out.count_n("flows.zero", fz as u64);
    let mut n = 0;
    while flows < budget {
        let max_in = if n % 4 == 0 { 6 } else { 5 };
        let mut sc = scenario(&secp, rng, max_in, n % 3 == 1);
        // explicit zero outputs of the accepted shapes in every second random scenario
        if n % 2 == 1 {
            let z = [Zero::Fee, Zero::OpReturn, Zero::Long][(n / 2) % 3];
            add_zero_output(&mut sc, rng, z);
            out.count(&format!("zero.{}", z.name()));
            out.count(&format!("zero.{}.random_scenario", z.name()));
        }
        // output scripts of the random scenarios: every address kind
        for i in 0..sc.outs.len() {
            if sc.outs[i].owner.is_some() && rng.gen_range(0..2) == 0 {
                let (nm, bytes) = match rng.gen_range(0..5) {
                    0 => p2pkh_raw(rng),
                    1 => p2sh_raw(rng),
                    2 => witprog(rng, 0, 32),
                    _ => {
                        let ver = rng.gen_range(1..=16u8);
                        let len = rng.gen_range(2..=40usize);
                        witprog(rng, ver, len)
                    }
                };
                sc.pset.outputs_mut()[i].script_pubkey = Script::from(bytes);
                out.count(&format!("script.random_scenario.{}", nm.split('_').next().unwrap_or("")));
            }
        }
        flows += one_scenario(out, &secp, rng, &sc, if thorough { 24 } else { 6 });
        if n % 2 == 0 {
            flows += negative_controls(out, &secp, rng, &sc);
        }
        n += 1;
    }
    out.count_n("flows", (flows + fs + fz) as u64);
    out.count_n("scenarios", n as u64);
}
