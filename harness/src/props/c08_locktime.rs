//! C08 model growth — lock times (`src/locktime.rs`: LockTime, Height, Time) and sequence numbers
//! (`src/transaction.rs`: Sequence).  Included from c08.rs (`mod locktime_ext`).
//!
//! K: every function on boundary-heavy u32/u16 values against EV.Model.LockTime (ops `lt.*`, `seq.*`,
//! `pset.locktimetyped`).  S: the documented contract of each function evaluated on the real code with
//! oracles written with literals (the BIP-65/68/125 numbers), not with the crate's constants.
use super::{fallback_val, height_val, lock_pset, opt_s, reqs_s, time_val, Req};
use crate::{gen, hex, Out, Rng, R};
use elements::locktime::{Height, Time};
use elements::{LockTime, Sequence};
use std::cmp::Ordering;
use std::str::FromStr;

/// BIP-65 / Bitcoin Core `LOCKTIME_THRESHOLD`, written out (the oracle must not read the crate's constant)
const TH: u32 = 500_000_000;
/// BIP-68: disable flag (bit 31), type flag (bit 22), value mask (low 16 bits), granularity 2^9 seconds
const BIT31: u32 = 1 << 31;
const BIT22: u32 = 1 << 22;
const LOW16: u32 = 0xffff;
const GRAN: u64 = 512;

fn lt_str(l: &LockTime) -> String {
    match l {
        LockTime::Blocks(h) => format!("H:{}", h.to_consensus_u32()),
        LockTime::Seconds(t) => format!("T:{}", t.to_consensus_u32()),
    }
}
fn b01(b: bool) -> &'static str { if b { "1" } else { "0" } }
fn ord_s(o: Ordering) -> &'static str { match o { Ordering::Less => "lt", Ordering::Equal => "eq", Ordering::Greater => "gt" } }

/// the fixed boundary values every u32 op sees on every run
fn boundaries() -> Vec<u32> {
    let mut v: Vec<u32> = vec![
        0, 1, 2, 3, 255, 256, 511, 512, 513, 1023, 1024,
        TH - 2, TH - 1, TH, TH + 1, TH + 2,
        (1 << 16) - 1, 1 << 16, (1 << 16) + 1,
        BIT22 - 1, BIT22, BIT22 + 1, BIT22 + LOW16 - 1, BIT22 + LOW16, BIT22 + LOW16 + 1, BIT22 | (1 << 16),
        BIT31 - 1, BIT31, BIT31 + 1, BIT31 | BIT22, (BIT31 | BIT22) + 1, BIT31 | LOW16, BIT31 - 1 - BIT22,
        0xffff_fffc, 0xffff_fffd, 0xffff_fffe, 0xffff_ffff,
        // the from_seconds_floor / from_seconds_ceil error boundaries: 65535*512, 65536*512
        65535 * 512 - 513, 65535 * 512 - 512, 65535 * 512 - 511, 65535 * 512 - 1, 65535 * 512, 65535 * 512 + 1,
        65535 * 512 + 511, 65536 * 512 - 1, 65536 * 512, 65536 * 512 + 1, 65536 * 512 + 512,
        0x7fff * 512, 0x8000 * 512 - 1, 0x8000 * 512,
    ];
    for k in 0..32 {
        v.push(1u32 << k);
        v.push(!(1u32 << k));
    }
    v.sort_unstable();
    v.dedup();
    v
}

fn rand_u32(rng: &mut R) -> u32 {
    match rng.gen_range(0..10) {
        0 => gen::u32_edge(rng),
        1 => rng.gen_range(TH - 3..=TH + 3),
        2 => rng.gen_range(0..TH),
        3 => rng.gen_range(TH..=u32::MAX),
        // a relative lock time with random flag bits and a boundary-heavy 16-bit value
        4 | 5 => {
            let low = rand_u16(rng) as u32;
            let mut n = low;
            if rng.gen_bool(0.5) { n |= BIT22; }
            if rng.gen_bool(0.3) { n |= BIT31; }
            if rng.gen_bool(0.3) { n |= rng.gen::<u32>() & !(BIT31 | BIT22 | LOW16); }
            n
        }
        6 => u32::MAX - rng.gen_range(0..4),
        7 => (rng.gen_range(65530u32..65540)) * 512 + rng.gen_range(0..3) * 511,
        _ => rng.gen(),
    }
}

fn rand_u16(rng: &mut R) -> u16 {
    match rng.gen_range(0..6) {
        0 => [0u16, 1, 2, 255, 256, 0x7fff, 0x8000, 0xfffe, 0xffff][rng.gen_range(0..9)],
        1 => 1u16 << rng.gen_range(0..16),
        2 => !(1u16 << rng.gen_range(0..16)),
        _ => rng.gen(),
    }
}

// ------------------------------------------------------------------ LockTime, one value

fn lt_value(out: &mut Out, n: u32, k: bool) {
    let l = LockTime::from_consensus(n);
    let below = n < TH;
    if k {
        out.k(format!("lt.fromconsensus {}", n), Out::guard(|| {
            let l = LockTime::from_consensus(n);
            format!("ok {} {} {}{}", lt_str(&l), l.to_consensus_u32(), b01(l.is_block_height()), b01(l.is_block_time()))
        }));
        out.k(format!("lt.fromheight {}", n), Out::guard(|| match LockTime::from_height(n) { Ok(l) => format!("ok {}", lt_str(&l)), Err(_) => "err".into() }));
        out.k(format!("lt.fromtime {}", n), Out::guard(|| match LockTime::from_time(n) { Ok(l) => format!("ok {}", lt_str(&l)), Err(_) => "err".into() }));
        out.k(format!("lt.height {}", n), Out::guard(|| match Height::from_consensus(n) {
            Ok(h) => format!("ok {} {} {}", h.to_consensus_u32(), lt_str(&LockTime::from(h)), h),
            Err(_) => "err".into(),
        }));
        out.k(format!("lt.time {}", n), Out::guard(|| match Time::from_consensus(n) {
            Ok(t) => format!("ok {} {} {}", t.to_consensus_u32(), lt_str(&LockTime::from(t)), t),
            Err(_) => "err".into(),
        }));
        out.k(format!("lt.display {}", n), Out::guard(|| { let l = LockTime::from_consensus(n); format!("ok {}|{:#}", l, l) }));
    }
    // "`from_consensus` roundtrips as expected with `to_consensus_u32`"
    out.s("lt_consensus_roundtrip", l.to_consensus_u32() == n, || format!("n={} from_consensus(n).to_consensus_u32()={}", n, l.to_consensus_u32()));
    // "values below the threshold are interpreted as block heights, values above (or equal to) ... as block times"
    out.s("lt_unit_is_threshold_split", l.is_block_height() == below && l.is_block_time() == !below && matches!(l, LockTime::Blocks(_)) == below,
        || format!("n={} is_block_height={} is_block_time={} value={}", n, l.is_block_height(), l.is_block_time(), lt_str(&l)));
    let fh = LockTime::from_height(n);
    let ft = LockTime::from_time(n);
    out.s("lt_from_height_iff_below_threshold", fh.is_ok() == below && (!below || fh == Ok(l)), || format!("n={} from_height={:?}", n, fh.as_ref().map(lt_str)));
    out.s("lt_from_time_iff_at_or_above_threshold", ft.is_ok() == !below && (below || ft == Ok(l)), || format!("n={} from_time={:?}", n, ft.as_ref().map(lt_str)));
    let h = Height::from_consensus(n);
    let t = Time::from_consensus(n);
    out.s("lt_height_constructor_spec", h.is_ok() == below && h.as_ref().map(|h| h.to_consensus_u32() == n && LockTime::from(*h) == l).unwrap_or(true), || format!("n={}", n));
    out.s("lt_time_constructor_spec", t.is_ok() == !below && t.as_ref().map(|t| t.to_consensus_u32() == n && LockTime::from(*t) == l).unwrap_or(true), || format!("n={}", n));
    // text: Display then FromStr is the identity on every type
    out.s("lt_display_fromstr_roundtrip", LockTime::from_str(&l.to_string()) == Ok(l)
        && h.as_ref().map(|h| Height::from_str(&h.to_string()).as_ref() == Ok(h)).unwrap_or(true)
        && t.as_ref().map(|t| Time::from_str(&t.to_string()).as_ref() == Ok(t)).unwrap_or(true),
        || format!("n={} display={}", n, l));
    out.count(if below { "lt.value.height" } else { "lt.value.time" });
}

// ------------------------------------------------------------------ LockTime, pairs and triples

fn lt_pair(out: &mut Out, a: u32, b: u32, k: bool) {
    let (x, y) = (LockTime::from_consensus(a), LockTime::from_consensus(b));
    if k {
        out.k(format!("lt.sameunit {} {}", a, b), Out::guard(|| format!("ok {}", b01(LockTime::from_consensus(a).is_same_unit(LockTime::from_consensus(b))))));
        out.k(format!("lt.cmp {} {}", a, b), Out::guard(|| {
            let (x, y) = (LockTime::from_consensus(a), LockTime::from_consensus(b));
            format!("ok {} {}{}{}{}", x.partial_cmp(&y).map(ord_s).unwrap_or("none"), b01(x < y), b01(x <= y), b01(x > y), b01(x >= y))
        }));
    }
    let same = (a < TH) == (b < TH);
    out.s("lt_is_same_unit_spec", x.is_same_unit(y) == same && y.is_same_unit(x) == same, || format!("a={} b={} is_same_unit={}", a, b, x.is_same_unit(y)));
    // "cannot compare different lock units (height vs time)": an order only within a unit, there the order of the values
    let exp = if same { Some(a.cmp(&b)) } else { None };
    out.s("lt_partial_cmp_spec", x.partial_cmp(&y) == exp, || format!("a={} b={} partial_cmp={:?} expected={:?}", a, b, x.partial_cmp(&y), exp));
    out.count(if same { "lt.pair.same_unit" } else { "lt.pair.mixed_unit" });
}

/// `n` arbitrary; `h`, `t` arbitrary u32 (the op answers `err` when one is not a value of its type)
fn lt_triple(out: &mut Out, n: u32, h: u32, t: u32, k: bool) {
    if k {
        out.k(format!("lt.satisfied {} {} {}", n, h, t), Out::guard(|| match (Height::from_consensus(h), Time::from_consensus(t)) {
            (Ok(h), Ok(t)) => format!("ok {}", b01(LockTime::from_consensus(n).is_satisfied_by(h, t))),
            _ => "err".into(),
        }));
    }
    let (hh, tt) = match (Height::from_consensus(h), Time::from_consensus(t)) { (Ok(h), Ok(t)) => (h, t), _ => { out.count("lt.triple.untyped"); return; } };
    let l = LockTime::from_consensus(n);
    let got = l.is_satisfied_by(hh, tt);
    // "If self is a blockheight based lock then it is checked against height and if self is a blocktime based
    //  lock it is checked against time"; satisfied = a transaction with nLockTime set to height/time is valid: n <= it
    let exp = if n < TH { n <= h } else { n <= t };
    out.s("lt_is_satisfied_by_spec", got == exp, || format!("n={} height={} time={} is_satisfied_by={} expected={}", n, h, t, got, exp));
    // the doc's equivalent formulation through partial_cmp, with the transaction lock time of the same unit
    let txl = if n < TH { LockTime::from(hh) } else { LockTime::from(tt) };
    out.s("lt_satisfied_matches_partial_cmp", l.partial_cmp(&txl).map(|o| o != Ordering::Greater) == Some(got), || format!("n={} height={} time={}", n, h, t));
    // ZERO "is able to be included immediately in any block"
    out.s("lt_zero_always_satisfied", LockTime::ZERO.is_satisfied_by(hh, tt), || format!("height={} time={}", h, t));
    out.count(&format!("lt.triple.{}.{}", if n < TH { "height" } else { "time" }, if got { "sat" } else { "unsat" }));
}

/// monotone in height and time: later blocks keep a satisfied lock satisfied
fn lt_monotone(out: &mut Out, rng: &mut R, n: u32, h: u32, t: u32) {
    let (Ok(hh), Ok(tt)) = (Height::from_consensus(h), Time::from_consensus(t)) else { return };
    let h2 = match rng.gen_range(0..3) { 0 => h, 1 => (h + 1).min(TH - 1), _ => rng.gen_range(h..TH) };
    let t2 = match rng.gen_range(0..3) { 0 => t, 1 => t.saturating_add(1), _ => rng.gen_range(t..=u32::MAX) };
    let (hh2, tt2) = (Height::from_consensus(h2).expect("height"), Time::from_consensus(t2).expect("time"));
    let l = LockTime::from_consensus(n);
    out.s("lt_is_satisfied_by_monotone", !l.is_satisfied_by(hh, tt) || l.is_satisfied_by(hh2, tt2),
        || format!("n={} satisfied by height={} time={} but not by height={} time={}", n, h, t, h2, t2));
}

fn near(rng: &mut R, n: u32) -> u32 {
    match rng.gen_range(0..4) { 0 => n, 1 => n.saturating_sub(1), 2 => n.saturating_add(1), _ => rand_u32(rng) }
}
fn near_height(rng: &mut R, n: u32) -> u32 {
    let v = near(rng, n);
    if v < TH { v } else { height_val(rng) }
}
fn near_time(rng: &mut R, n: u32) -> u32 {
    let v = near(rng, n);
    if v >= TH { v } else { time_val(rng) }
}

// ------------------------------------------------------------------ text

fn parse_case(out: &mut Out, s: &str) {
    let h = hex(s.as_bytes());
    out.k(format!("lt.parse locktime {}", h), Out::guard(|| match LockTime::from_str(s) { Ok(l) => format!("ok {}", lt_str(&l)), Err(_) => "err".into() }));
    out.k(format!("lt.parse height {}", h), Out::guard(|| match Height::from_str(s) { Ok(l) => format!("ok {}", l.to_consensus_u32()), Err(_) => "err".into() }));
    out.k(format!("lt.parse time {}", h), Out::guard(|| match Time::from_str(s) { Ok(l) => format!("ok {}", l.to_consensus_u32()), Err(_) => "err".into() }));
    out.k(format!("lt.parse sequence {}", h), Out::guard(|| match Sequence::from_str(s) { Ok(l) => format!("ok {}", l.to_consensus_u32()), Err(_) => "err".into() }));
    // FromStr and the TryFrom impls are the same function
    use std::convert::TryFrom;
    out.s("lt_tryfrom_str_equals_fromstr",
        LockTime::try_from(s).ok() == LockTime::from_str(s).ok() && LockTime::try_from(s.to_string()).ok() == LockTime::from_str(s).ok()
            && Height::try_from(s).ok() == Height::from_str(s).ok() && Height::try_from(s.to_string()).ok() == Height::from_str(s).ok()
            && Time::try_from(s).ok() == Time::from_str(s).ok() && Time::try_from(s.to_string()).ok() == Time::from_str(s).ok()
            && Sequence::try_from(s).ok() == Sequence::from_str(s).ok(),
        || format!("text={:?}", s));
}

// ------------------------------------------------------------------ Sequence

fn seq_flags(s: &Sequence) -> String {
    format!("{}{}{}{}{}{}", b01(s.is_final()), b01(s.is_rbf()), b01(s.is_relative_lock_time()), b01(s.is_height_locked()), b01(s.is_time_locked()), b01(s.enables_absolute_lock_time()))
}

fn seq_value(out: &mut Out, n: u32, k: bool) {
    let s = Sequence::from_consensus(n);
    if k {
        out.k(format!("seq.class {}", n), Out::guard(|| { let s = Sequence::from_consensus(n); format!("ok {} {} {}", seq_flags(&s), s.to_consensus_u32(), u32::from(s)) }));
        out.k(format!("seq.fmt {}", n), Out::guard(|| { let s = Sequence::from_consensus(n); format!("ok {} {:x} {:X}", s, s, s) }));
        out.k(format!("seq.floor {}", n), Out::guard(|| match Sequence::from_seconds_floor(n) { Ok(s) => format!("ok {}", s.0), Err(_) => "err".into() }));
        out.k(format!("seq.ceil {}", n), Out::guard(|| match Sequence::from_seconds_ceil(n) { Ok(s) => format!("ok {}", s.0), Err(_) => "err".into() }));
    }
    out.s("seq_consensus_roundtrip", s.to_consensus_u32() == n && u32::from(s) == n && s == Sequence(n), || format!("n={}", n));
    // "The sequence number being equal to 0xffffffff ... indicates that the transaction is finalised"
    out.s("seq_is_final_iff_ffffffff", s.is_final() == (n == 0xffff_ffff), || format!("n={:#x} is_final={}", n, s.is_final()));
    out.s("seq_enables_absolute_lock_time_iff_not_final", s.enables_absolute_lock_time() == (n != 0xffff_ffff), || format!("n={:#x}", n));
    // "Replace by fee is signaled by the sequence being less than 0xfffffffe"
    out.s("seq_is_rbf_iff_below_fffffffe", s.is_rbf() == (n < 0xffff_fffe), || format!("n={:#x} is_rbf={}", n, s.is_rbf()));
    // BIP-68: bit 31 set = no relative lock time; bit 22 = time (set) / height (clear)
    let rel = n & BIT31 == 0;
    out.s("seq_relative_iff_bit31_clear", s.is_relative_lock_time() == rel, || format!("n={:#x} is_relative_lock_time={}", n, s.is_relative_lock_time()));
    out.s("seq_height_time_partition", s.is_height_locked() == (rel && n & BIT22 == 0) && s.is_time_locked() == (rel && n & BIT22 != 0),
        || format!("n={:#x} is_height_locked={} is_time_locked={}", n, s.is_height_locked(), s.is_time_locked()));
    out.s("seq_text_roundtrip", Sequence::from_str(&s.to_string()) == Ok(s) && u32::from_str_radix(&format!("{:x}", s), 16) == Ok(n)
        && u32::from_str_radix(&format!("{:X}", s), 16) == Ok(n), || format!("n={}", n));
    seq_seconds(out, n);
    out.count(&format!("seq.class.{}", if !rel { "no_relative" } else if n & BIT22 == 0 { "height_locked" } else { "time_locked" }));
}

/// from_seconds_floor / from_seconds_ceil: "converting the seconds into 512 second interval with floor /
/// ceiling division. Will return an error if the input cannot be encoded in 16 bits."
fn seq_seconds(out: &mut Out, secs: u32) {
    let s64 = secs as u64;
    let fl = Sequence::from_seconds_floor(secs);
    let ce = Sequence::from_seconds_ceil(secs);
    let fl_fits = s64 / GRAN <= 0xffff;
    let ce_fits = (s64 + GRAN - 1) / GRAN <= 0xffff;
    out.s("seq_from_seconds_floor_spec", match &fl {
        Ok(q) => fl_fits && q.is_time_locked() && { let i = (q.0 & LOW16) as u64; i * GRAN <= s64 && s64 < (i + 1) * GRAN },
        Err(_) => !fl_fits,
    }, || format!("seconds={} from_seconds_floor={:?}", secs, fl));
    out.s("seq_from_seconds_ceil_spec", match &ce {
        Ok(q) => ce_fits && q.is_time_locked() && { let i = (q.0 & LOW16) as u64; s64 <= i * GRAN && i * GRAN < s64 + GRAN },
        Err(_) => !ce_fits,
    }, || format!("seconds={} from_seconds_ceil={:?}", secs, ce));
    if let (Ok(f), Ok(c)) = (&fl, &ce) {
        let (f, c) = (f.0 & LOW16, c.0 & LOW16);
        out.s("seq_floor_ceil_bracket", f <= c && c <= f + 1 && (f == c) == (secs % 512 == 0), || format!("seconds={} floor={} ceil={}", secs, f, c));
    }
    out.count(&format!("seq.seconds.floor_{}.ceil_{}", if fl.is_ok() { "ok" } else { "err" }, if ce.is_ok() { "ok" } else { "err" }));
}

fn seq_u16(out: &mut Out, v: u16, k: bool) {
    let fh = Sequence::from_height(v);
    let fi = Sequence::from_512_second_intervals(v);
    if k {
        out.k(format!("seq.fromheight {}", v), Out::guard(|| { let s = Sequence::from_height(v); format!("ok {} {}", s.0, seq_flags(&s)) }));
        out.k(format!("seq.from512 {}", v), Out::guard(|| { let s = Sequence::from_512_second_intervals(v); format!("ok {} {}", s.0, seq_flags(&s)) }));
    }
    // "Create a relative lock-time using block height": a height-locked relative lock time whose value is the argument
    out.s("seq_from_height_spec", fh.is_relative_lock_time() && fh.is_height_locked() && !fh.is_time_locked() && fh.0 & LOW16 == v as u32, || format!("height={} from_height={:#x}", v, fh.0));
    // "Create a relative lock-time using time intervals": time-locked, value = the argument
    out.s("seq_from_512_second_intervals_spec", fi.is_relative_lock_time() && fi.is_time_locked() && !fi.is_height_locked() && fi.0 & LOW16 == v as u32, || format!("intervals={} from_512_second_intervals={:#x}", v, fi.0));
    // exact seconds round trip through the interval encoding
    out.s("seq_from_seconds_of_interval_multiple", Sequence::from_seconds_floor(v as u32 * 512) == Ok(fi) && Sequence::from_seconds_ceil(v as u32 * 512) == Ok(fi),
        || format!("intervals={}", v));
}

fn seq_consts(out: &mut Out) {
    out.k("seq.consts".into(), Out::guard(|| format!("ok {} {} {} {} {}", Sequence::MAX.0, Sequence::ZERO.0, Sequence::ENABLE_LOCKTIME_NO_RBF.0, Sequence::ENABLE_RBF_NO_LOCKTIME.0, Sequence::default().0)));
    out.k("lt.zero".into(), Out::guard(|| format!("ok {} {}", lt_str(&LockTime::ZERO), Height::ZERO.to_consensus_u32())));
    // the documentation of each constant
    let (m, z, a, b) = (Sequence::MAX, Sequence::ZERO, Sequence::ENABLE_LOCKTIME_NO_RBF, Sequence::ENABLE_RBF_NO_LOCKTIME);
    out.s("seq_constants_as_documented",
        // MAX: "disables lock-time and replace-by-fee"
        m.is_final() && !m.enables_absolute_lock_time() && !m.is_rbf() && !m.is_relative_lock_time()
        // ZERO: "enables replace-by-fee and lock-time"
        && z.is_rbf() && z.enables_absolute_lock_time() && z.0 == 0
        // ENABLE_LOCKTIME_NO_RBF: "enables absolute lock-time but disables replace-by-fee and relative lock-time"
        && a.enables_absolute_lock_time() && !a.is_rbf() && !a.is_relative_lock_time()
        // ENABLE_RBF_NO_LOCKTIME: "enables replace-by-fee and absolute lock-time but disables relative lock-time"
        && b.is_rbf() && b.enables_absolute_lock_time() && !b.is_relative_lock_time()
        // "The default value of sequence is 0xffffffff"
        && Sequence::default().0 == 0xffff_ffff,
        || format!("MAX={:#x} ZERO={:#x} ENABLE_LOCKTIME_NO_RBF={:#x} ENABLE_RBF_NO_LOCKTIME={:#x}", m.0, z.0, a.0, b.0));
    // "a transaction with nLocktime==0 is able to be included immediately in any block"
    out.s("lt_zero_is_consensus_zero", LockTime::ZERO == LockTime::from_consensus(0) && LockTime::ZERO.to_consensus_u32() == 0 && Height::ZERO.to_consensus_u32() == 0, || lt_str(&LockTime::ZERO));
}

fn seq_pair(out: &mut Out, a: u32, b: u32, k: bool) {
    if k {
        out.k(format!("seq.cmp {} {}", a, b), Out::guard(|| format!("ok {}", ord_s(Sequence(a).cmp(&Sequence(b))))));
    }
    out.s("seq_ord_is_u32_ord", Sequence(a).cmp(&Sequence(b)) == a.cmp(&b) && Sequence(a).partial_cmp(&Sequence(b)) == Some(a.cmp(&b)) && (Sequence(a) == Sequence(b)) == (a == b), || format!("a={} b={}", a, b));
}

// ------------------------------------------------------------------ bridge: PSET lock time as a LockTime

/// `locktime()` of a PSET, viewed through LockTime: the chosen value is of the unit BIP370 prescribes,
/// dominates every requirement of that unit, and so whatever satisfies it satisfies each of them.
fn pset_bridge(out: &mut Out, rng: &mut R, fallback: Option<u32>, reqs: &[Req], k: bool) {
    let p = lock_pset(fallback, reqs);
    let real = Out::guard(|| match p.locktime() { Ok(l) => format!("ok {}", lt_str(&l)), Err(_) => "err".into() });
    if k {
        out.k(format!("pset.locktimetyped {} {}", opt_s(fallback), reqs_s(reqs)), real.clone());
    }
    let ctx = || format!("fallback={} reqs={} locktime={}", opt_s(fallback), reqs_s(reqs), real);
    let constraining: Vec<&Req> = reqs.iter().filter(|r| r.0.is_some() || r.1.is_some()).collect();
    let lt = match p.locktime() { Ok(l) => l, Err(_) => {
        // the error case exactly: some input supports only a time, some other only a height
        out.s("pset_locktime_error_iff_conflict", reqs.iter().any(|r| r.0.is_some() && r.1.is_none()) && reqs.iter().any(|r| r.1.is_some() && r.0.is_none()), ctx);
        out.count("pset.bridge.conflict");
        return;
    } };
    out.s("pset_locktime_error_iff_conflict", !(reqs.iter().any(|r| r.0.is_some() && r.1.is_none()) && reqs.iter().any(|r| r.1.is_some() && r.0.is_none())), ctx);
    if constraining.is_empty() {
        // "the fallback when no input constrains it" (ZERO when there is none)
        out.s("pset_locktime_fallback", lt == fallback.map(LockTime::from_consensus).unwrap_or(LockTime::ZERO), ctx);
        out.count("pset.bridge.fallback");
        return;
    }
    // the unit: height when every constraining input supports one, otherwise time
    let all_h = constraining.iter().all(|r| r.1.is_some());
    out.s("pset_locktime_unit", lt.is_block_height() == all_h && lt.is_block_time() == !all_h, ctx);
    // every constraining input has a requirement of the chosen unit, and the chosen value dominates it
    let mut dominated = true;
    let mut inputs: Vec<LockTime> = vec![];
    for r in &constraining {
        let q = if lt.is_block_height() { r.1.map(|h| LockTime::from(Height::from_consensus(h).expect("height"))) } else { r.0.map(|t| LockTime::from(Time::from_consensus(t).expect("time"))) };
        match q {
            Some(q) => { dominated &= q.is_same_unit(lt) && matches!(q.partial_cmp(&lt), Some(Ordering::Less | Ordering::Equal)); inputs.push(q); }
            None => dominated = false,
        }
    }
    out.s("pset_locktime_dominates_requirements", dominated, ctx);
    // … and is one of them (the maximum, not more)
    out.s("pset_locktime_is_a_requirement", inputs.iter().any(|q| *q == lt), ctx);
    // whatever (height, time) satisfies the transaction's lock time satisfies every input's requirement of that unit
    let v = lt.to_consensus_u32();
    for _ in 0..4 {
        let h = if v < TH { near_height(rng, v) } else { height_val(rng) };
        let t = if v >= TH { near_time(rng, v) } else { time_val(rng) };
        let (hh, tt) = (Height::from_consensus(h).expect("height"), Time::from_consensus(t).expect("time"));
        if lt.is_satisfied_by(hh, tt) {
            out.s("pset_locktime_satisfied_implies_inputs_satisfied", inputs.iter().all(|q| q.is_satisfied_by(hh, tt)), || format!("{} height={} time={}", ctx(), h, t));
        } else {
            // the chosen value is tight: the input that states it is not satisfied either
            out.s("pset_locktime_tight", inputs.iter().any(|q| !q.is_satisfied_by(hh, tt)), || format!("{} height={} time={}", ctx(), h, t));
        }
    }
    out.count(if all_h { "pset.bridge.height" } else { "pset.bridge.time" });
}

fn rand_reqs(rng: &mut R) -> Vec<Req> {
    let n = rng.gen_range(0..6);
    let equal = rng.gen_bool(0.2);
    let (et, eh) = (time_val(rng), height_val(rng));
    // bias away from conflicts so that the ok branches are well populated
    let bias = rng.gen_range(0..3);
    (0..n).map(|_| {
        let t = if equal { et } else { time_val(rng) };
        let h = if equal { eh } else { height_val(rng) };
        let kind = match bias { 0 => rng.gen_range(0..4), 1 => [0, 1, 3, 3][rng.gen_range(0..4)], _ => [0, 2, 3, 3][rng.gen_range(0..4)] };
        match kind { 0 => (None, None), 1 => (Some(t), None), 2 => (None, Some(h)), _ => (Some(t), Some(h)) }
    }).collect()
}

// ------------------------------------------------------------------ entry

pub fn run(rng: &mut R, out: &mut Out) {
    let scale = if out.tier_thorough { 12 } else { 1 };
    let bs = boundaries();
    seq_consts(out);

    // one value: every boundary, then random
    for &n in &bs {
        lt_value(out, n, true);
        seq_value(out, n, true);
    }
    for i in 0..300 * scale {
        let n = rand_u32(rng);
        lt_value(out, n, i < 150 * scale);
        seq_value(out, n, i < 150 * scale);
    }
    // S only, dense around the boundaries
    for c in [0u32, TH, 1 << 16, BIT22, BIT31, 65535 * 512, 65536 * 512, u32::MAX] {
        for d in 0..=(64 * scale as u32) {
            for n in [c.wrapping_sub(d), c.wrapping_add(d)] {
                lt_value(out, n, false);
                seq_value(out, n, false);
            }
        }
    }

    // u16 arguments: the boundaries with K, all 65536 values in S
    for v in [0u16, 1, 2, 255, 256, 511, 512, 0x7ffe, 0x7fff, 0x8000, 0x8001, 0xfffe, 0xffff] {
        seq_u16(out, v, true);
    }
    for i in 0..60 * scale { let v = rand_u16(rng); seq_u16(out, v, i < 40 * scale); }
    if out.tier_thorough {
        for v in 0..=u16::MAX { seq_u16(out, v, false); }
    } else {
        for v in (0..=u16::MAX).step_by(7) { seq_u16(out, v, false); }
    }

    // pairs: a small boundary set squared (equal, adjacent, mixed units), then random near-pairs
    let small = [0u32, 1, TH - 1, TH, TH + 1, BIT31, 0xffff_fffe, 0xffff_ffff];
    for &a in &small {
        for &b in &small {
            lt_pair(out, a, b, true);
            seq_pair(out, a, b, true);
        }
    }
    for i in 0..200 * scale {
        let a = if rng.gen_bool(0.5) { bs[rng.gen_range(0..bs.len())] } else { rand_u32(rng) };
        let b = near(rng, a);
        lt_pair(out, a, b, i < 120 * scale);
        seq_pair(out, a, b, i < 60 * scale);
    }

    // triples for is_satisfied_by: equal / adjacent values, mixed units, untyped height/time
    let ns = [0u32, 1, 2, TH - 2, TH - 1, TH, TH + 1, u32::MAX - 1, u32::MAX];
    for &n in &ns {
        for &h in &[0u32, 1, 2, TH - 2, TH - 1] {
            for &t in &[TH, TH + 1, u32::MAX - 1, u32::MAX] {
                lt_triple(out, n, h, t, true);
            }
        }
    }
    // not values of the types
    lt_triple(out, 5, TH, TH, true);
    lt_triple(out, 5, 5, TH - 1, true);
    lt_triple(out, TH, u32::MAX, 0, true);
    for i in 0..400 * scale {
        let n = if rng.gen_bool(0.3) { bs[rng.gen_range(0..bs.len())] } else { rand_u32(rng) };
        let (h, t) = if rng.gen_bool(0.08) { (near(rng, n), near(rng, n)) } else { (near_height(rng, n), near_time(rng, n)) };
        lt_triple(out, n, h, t, i < 250 * scale);
        lt_monotone(out, rng, n, h, t);
    }

    // text
    for s in ["", "0", "+0", "-0", "+", "-", "++1", "00005", "+00005", "4294967295", "4294967296", "04294967295", "42949672950",
        "499999999", "500000000", "+500000000", "499999999 ", " 499999999", "0x10", "1_000", "1e3", "5.0", "٣", "５", "é", "99999999999999999999", "abc", "4294967295a"] {
        parse_case(out, s);
    }
    for _ in 0..60 * scale {
        let s = match rng.gen_range(0..4) {
            0 => rand_u32(rng).to_string(),
            1 => format!("{}{}", if rng.gen_bool(0.5) { "+" } else { "0" }, rand_u32(rng)),
            2 => (rand_u32(rng) as u64 + rng.gen_range(0..3) * (u32::MAX as u64 / 2 + 1)).to_string(),
            _ => { let n = rng.gen_range(0..13); (0..n).map(|_| { let m = if rng.gen_bool(0.8) { 10 } else { 14 }; b"0123456789+- a"[rng.gen_range(0..m)] as char }).collect() }
        };
        parse_case(out, &s);
    }

    // bridge: the PSET lock time viewed as a LockTime
    pset_bridge(out, rng, Some(77), &[(Some(TH + 5), Some(7)), (Some(TH + 9), Some(3))], true);
    pset_bridge(out, rng, Some(TH), &[], true);
    pset_bridge(out, rng, Some(TH - 1), &[(None, None)], true);
    pset_bridge(out, rng, None, &[(None, None), (None, None)], true);
    pset_bridge(out, rng, None, &[(Some(TH), None), (Some(u32::MAX), Some(TH - 1))], true);
    pset_bridge(out, rng, None, &[(None, Some(0)), (Some(TH), Some(0))], true);
    pset_bridge(out, rng, Some(3), &[(Some(TH), None), (None, Some(0))], true);
    for i in 0..400 * scale {
        let reqs = rand_reqs(rng);
        let fb = fallback_val(rng);
        pset_bridge(out, rng, fb, &reqs, i < 250 * scale);
    }
}
