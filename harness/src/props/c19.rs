//! C19 — dynafed parameter roots survive compaction and match the commitment layout
use crate::{gen, hex, Out, Rng, R};
use elements::dynafed::{FullParams, Params};
use elements::encode::{serialize, Encodable};
use elements::hashes::{sha256, sha256d, Hash, HashEngine};
use elements::{BlockExtData, BlockHeader};

fn h256d<E: Encodable>(e: &E) -> [u8; 32] {
    sha256d::Hash::hash(&serialize(e)).to_byte_array()
}
fn comb(l: &[u8; 32], r: &[u8; 32]) -> [u8; 32] {
    let mut e = sha256::Hash::engine();
    e.input(l);
    e.input(r);
    e.midstate().expect("64").to_parts().0
}
/// independent oracle for the two-level commitment layout
fn layout_root(f: &FullParams) -> [u8; 32] {
    let left = comb(&h256d(&f.signblockscript), &h256d(&f.signblock_witness_limit));
    let extra = comb(&comb(&h256d(&f.fedpeg_program), &h256d(&f.fedpegscript)), &h256d(&f.extension_space));
    comb(&left, &extra)
}

fn one_params(out: &mut Out, p: &Params) {
    let b = serialize(p);
    let res = Out::guard(|| {
        let r = p.calculate_root();
        let c = p.clone().into_compact();
        let cr = match &c { Some(c) => hex(&c.calculate_root().to_byte_array()), None => "none".into() };
        let fr = match p { Params::Full(f) => hex(&f.calculate_root().to_byte_array()), _ => "none".into() };
        let ce = match &c { Some(c) => hex(&serialize(c)), None => "none".into() };
        format!("ok {} {} {} ok {}", hex(&r.to_byte_array()), cr, fr, ce)
    });
    out.k(format!("paramroot {}", hex(&b)), res);
    // direct property on the real code
    let root = p.calculate_root().to_byte_array();
    match p {
        Params::Null => {
            out.count("params.null");
            out.s("null_root_zero", root == [0u8; 32], || hex(&b));
            out.s("null_no_compact", p.clone().into_compact().is_none(), || hex(&b));
        }
        Params::Compact { signblockscript, signblock_witness_limit, elided_root } => {
            out.count("params.compact");
            let c = p.clone().into_compact().unwrap();
            out.s("compact_is_fixpoint", c == *p, || hex(&b));
            let exp = comb(&comb(&h256d(signblockscript), &h256d(signblock_witness_limit)), &elided_root.to_byte_array());
            out.s("compact_root_layout", root == exp, || hex(&b));
            out.s("elided_root_accessor", p.elided_root() == Some(elided_root), || hex(&b));
        }
        Params::Full(f) => {
            out.count("params.full");
            out.count(&format!("params.full.ext{}", f.extension_space.len().min(3)));
            let c = p.clone().into_compact().unwrap();
            let c2 = f.clone().into_compact();
            out.s("compaction_keeps_root", c.calculate_root() == p.calculate_root(), || hex(&b));
            out.s("full_root_direct_eq", f.calculate_root() == p.calculate_root(), || hex(&b));
            out.s("both_compactions_agree", c == c2, || hex(&b));
            out.s("root_layout", root == layout_root(f), || hex(&b));
            out.s("compact_keeps_sign_fields", c.signblockscript() == Some(&f.signblockscript) && c.signblock_witness_limit() == Some(f.signblock_witness_limit), || hex(&b));
            // compact of compact
            out.s("compact_idempotent", c.clone().into_compact() == Some(c.clone()), || hex(&b));
        }
    }
}

fn one_header(out: &mut Out, h: &BlockHeader) {
    let b = serialize(h);
    let res = Out::guard(|| match h.calculate_dynafed_params_root() {
        None => "ok none".to_string(),
        Some(r) => format!("ok {}", hex(&r.to_byte_array())),
    });
    out.k(format!("headerroot {}", hex(&b)), res);
    match &h.ext {
        BlockExtData::Proof { .. } => {
            out.count("header.legacy");
            out.s("legacy_has_no_root", h.calculate_dynafed_params_root().is_none(), || hex(&b));
        }
        BlockExtData::Dynafed { current, proposed, .. } => {
            out.count("header.dynafed");
            let exp = comb(&current.calculate_root().to_byte_array(), &proposed.calculate_root().to_byte_array());
            out.s("header_root_def", h.calculate_dynafed_params_root().map(|r| r.to_byte_array()) == Some(exp), || hex(&b));
            // compacting the params inside a header keeps the header root
            let mut h2 = h.clone();
            if let BlockExtData::Dynafed { current: c2, proposed: p2, .. } = &mut h2.ext {
                if let Some(c) = current.clone().into_compact() { *c2 = c; }
                if let Some(p) = proposed.clone().into_compact() { *p2 = p; }
            }
            out.s("header_root_survives_compaction", h2.calculate_dynafed_params_root() == h.calculate_dynafed_params_root(), || hex(&b));
        }
    }
}

pub fn run(rng: &mut R, out: &mut Out) {
    let scale = if out.tier_thorough { 20 } else { 1 };
    // the Elements Core vector shape and edge cases first
    let core = FullParams::new(vec![1u8].into(), 2, elements::bitcoin::ScriptBuf::from_bytes(vec![3]), vec![4], vec![vec![5, 6], vec![7]]);
    one_params(out, &Params::Full(core));
    one_params(out, &Params::Null);
    one_params(out, &Params::Full(FullParams::new(vec![].into(), 0, elements::bitcoin::ScriptBuf::new(), vec![], vec![])));
    one_params(out, &Params::Full(FullParams::new(vec![].into(), u32::MAX, elements::bitcoin::ScriptBuf::new(), vec![], vec![vec![]])));
    for _ in 0..300 * scale {
        one_params(out, &gen::params(rng));
    }
    for _ in 0..100 * scale {
        // larger extension spaces
        let n = rng.gen_range(0..12);
        let f = FullParams::new(gen::script(rng), gen::u32_edge(rng), elements::bitcoin::ScriptBuf::from_bytes(gen::bytes(rng, 34)), gen::bytes(rng, 100), (0..n).map(|_| gen::bytes(rng, 33)).collect());
        one_params(out, &Params::Full(f));
    }
    // edge cases: every combination of null / compact / full / all-extras-empty-full for current and proposed
    {
        let compact = loop { let p = gen::params(rng); if p.is_compact() { break p; } };
        let full = loop { let p = gen::params(rng); if p.is_full() { break p; } };
        let bare = Params::Full(FullParams::new(gen::script(rng), 7, elements::bitcoin::ScriptBuf::new(), vec![], vec![]));
        let all = [Params::Null, compact, full, bare];
        for c in all.iter() {
            for p in all.iter() {
                let mut h = gen::header(rng);
                h.ext = BlockExtData::Dynafed { current: c.clone(), proposed: p.clone(), signblock_witness: vec![] };
                one_header(out, &h);
            }
        }
        let mut h = gen::header(rng);
        h.ext = BlockExtData::default();
        one_header(out, &h);
    }
    // related pairs: current and proposed that agree in everything but ONE field (a re-stated or slightly amended
    // proposal), in every combination of representations — the header root must still pair the two distinct roots
    for _ in 0..12 * scale {
        let n = rng.gen_range(0..4);
        let base = FullParams::new(gen::script(rng), gen::u32_edge(rng), elements::bitcoin::ScriptBuf::from_bytes(gen::bytes(rng, 22)), gen::bytes(rng, 30), (0..n).map(|_| gen::bytes(rng, 33)).collect());
        let variants: Vec<FullParams> = vec![
            base.clone(),
            FullParams::new(gen::script(rng), base.signblock_witness_limit, base.fedpeg_program.clone(), base.fedpegscript.to_vec(), base.extension_space.to_vec()),
            FullParams::new(base.signblockscript.clone(), base.signblock_witness_limit.wrapping_add(1), base.fedpeg_program.clone(), base.fedpegscript.to_vec(), base.extension_space.to_vec()),
            FullParams::new(base.signblockscript.clone(), base.signblock_witness_limit, elements::bitcoin::ScriptBuf::from_bytes(gen::bytes(rng, 22)), base.fedpegscript.to_vec(), base.extension_space.to_vec()),
            FullParams::new(base.signblockscript.clone(), base.signblock_witness_limit, base.fedpeg_program.clone(), gen::bytes(rng, 31), base.extension_space.to_vec()),
            FullParams::new(base.signblockscript.clone(), base.signblock_witness_limit, base.fedpeg_program.clone(), base.fedpegscript.to_vec(), { let mut e = base.extension_space.to_vec(); e.push(gen::bytes(rng, 33)); e }),
        ];
        for (vi, v) in variants.iter().enumerate() {
            for (cc, pc) in [(false, false), (true, true), (true, false), (false, true)] {
                let cur = if cc { Params::Full(base.clone()).into_compact().unwrap() } else { Params::Full(base.clone()) };
                let prop = if pc { Params::Full(v.clone()).into_compact().unwrap() } else { Params::Full(v.clone()) };
                let mut h = gen::header(rng);
                h.ext = BlockExtData::Dynafed { current: cur, proposed: prop, signblock_witness: vec![] };
                out.count(&format!("header.related_pair.variant{}.{}{}", vi, if cc { "c" } else { "f" }, if pc { "c" } else { "f" }));
                one_header(out, &h);
            }
        }
        // a compact entry with an arbitrary elided root next to its twin with another one
        let c1 = Params::Compact { signblockscript: base.signblockscript.clone(), signblock_witness_limit: base.signblock_witness_limit, elided_root: elements::dynafed::ElidedRoot::from_byte_array(gen::arr32(rng)) };
        let c2 = Params::Compact { signblockscript: base.signblockscript.clone(), signblock_witness_limit: base.signblock_witness_limit, elided_root: elements::dynafed::ElidedRoot::from_byte_array(gen::arr32(rng)) };
        for (a, b) in [(c1.clone(), c2.clone()), (c2.clone(), c1.clone()), (c1.clone(), c1.clone())] {
            let mut h = gen::header(rng);
            h.ext = BlockExtData::Dynafed { current: a, proposed: b, signblock_witness: vec![] };
            out.count("header.related_pair.compact_twins");
            one_header(out, &h);
        }
    }
    // consecutive parameter sets whose fedpeg_program ‖ fedpegscript ‖ extension entries CONCATENATE to the same bytes
    // but are cut differently (a byte moved across a field boundary, entries regrouped): evaluated back to back, each
    // must get its own roots (nothing remembered from the previous set may be reused)
    for _ in 0..6 * scale {
        let sbs = gen::script(rng);
        let lim = gen::u32_edge(rng);
        let blob = gen::bytes(rng, 40);
        let mk = |p: usize, f: usize, cuts: &[usize]| -> Params {
            let prog = blob[..p].to_vec();
            let fs = blob[p..p + f].to_vec();
            let mut ext = vec![];
            let mut at = p + f;
            for &c in cuts { ext.push(blob[at..at + c].to_vec()); at += c; }
            ext.push(blob[at..].to_vec());
            Params::Full(FullParams::new(sbs.clone(), lim, elements::bitcoin::ScriptBuf::from_bytes(prog), fs, ext))
        };
        let sets = [mk(10, 10, &[5, 5]), mk(11, 9, &[5, 5]), mk(10, 10, &[4, 6]), mk(10, 11, &[4, 5]), mk(10, 10, &[10]), mk(10, 10, &[5, 5]), mk(9, 11, &[5, 5])];
        for p in sets.iter() {
            out.count("params.recut_sequence");
            one_params(out, p);
        }
        // and inside one header
        let mut h = gen::header(rng);
        h.ext = BlockExtData::Dynafed { current: sets[0].clone(), proposed: sets[1].clone(), signblock_witness: vec![] };
        one_header(out, &h);
        let mut h = gen::header(rng);
        h.ext = BlockExtData::Dynafed { current: sets[2].clone(), proposed: sets[0].clone(), signblock_witness: vec![] };
        one_header(out, &h);
    }
    // extension-space entries on both sides of the compact-size boundary
    for l in [0usize, 1, 66, 252, 253, 254, 255, 256, 300, 65535, 65536] {
        let f = FullParams::new(gen::script(rng), 3, elements::bitcoin::ScriptBuf::from_bytes(gen::bytes(rng, 22)), gen::bytes(rng, 10), vec![gen::bytes(rng, l), gen::bytes(rng, 2)]);
        out.count("params.extension_entry_boundary");
        one_params(out, &Params::Full(f));
    }
    for _ in 0..200 * scale {
        one_header(out, &gen::header(rng));
    }
}
