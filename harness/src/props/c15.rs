//! C15 — taproot script trees commit every leaf and nothing else
use crate::{gen, hex, unhex, Out, Rng, R};
use elements::hashes::{sha256, sha256t, Hash, HashEngine};
use elements::pset::serialize::{Deserialize as PsetDe, Serialize as PsetSer};
use elements::pset::TapTree;
use elements::schnorr::{TapTweak, TweakedPublicKey};
use elements::secp256k1_zkp::{Keypair, Parity, PublicKey, Scalar, Secp256k1, SecretKey, XOnlyPublicKey, All};
use elements::taproot::{
    ControlBlock, LeafVersion, TapBranchTag, TapLeafHash, TapNodeHash, TapTweakHash, TaprootBuilder, TaprootBuilderError,
    TaprootMerkleBranch, TaprootSpendInfo,
};
use elements::{Address, AddressParams, Script};
use std::collections::BTreeSet;

// ------------------------------------------------------------------ independent oracles

/// BIP340 tagged hash from plain SHA-256 (independent of the sha256t machinery)
fn tagged(tag: &str, msg: &[u8]) -> [u8; 32] {
    let t = sha256::Hash::hash(tag.as_bytes()).to_byte_array();
    let mut e = sha256::Hash::engine();
    e.input(&t);
    e.input(&t);
    e.input(msg);
    sha256::Hash::from_engine(e).to_byte_array()
}
fn compact_size(n: usize) -> Vec<u8> {
    if n <= 0xfc {
        vec![n as u8]
    } else if n <= 0xffff {
        let mut v = vec![0xfd];
        v.extend_from_slice(&(n as u16).to_le_bytes());
        v
    } else {
        let mut v = vec![0xfe];
        v.extend_from_slice(&(n as u32).to_le_bytes());
        v
    }
}
fn o_leaf(script: &[u8], ver: u8) -> [u8; 32] {
    let mut m = vec![ver];
    m.extend(compact_size(script.len()));
    m.extend_from_slice(script);
    tagged("TapLeaf/elements", &m)
}
fn o_branch(a: &[u8; 32], b: &[u8; 32]) -> [u8; 32] {
    let mut m = Vec::with_capacity(64);
    if a < b {
        m.extend_from_slice(a);
        m.extend_from_slice(b);
    } else {
        m.extend_from_slice(b);
        m.extend_from_slice(a);
    }
    tagged("TapBranch/elements", &m)
}
fn o_tweak(key: &[u8; 32], root: Option<&[u8; 32]>) -> [u8; 32] {
    let mut m = key.to_vec();
    if let Some(r) = root {
        m.extend_from_slice(r);
    }
    tagged("TapTweak/elements", &m)
}

#[derive(Clone, Debug)]
enum T {
    Leaf(Vec<u8>, u8),
    Hidden([u8; 32]),
    Node(Box<T>, Box<T>),
}

#[derive(Clone, Debug, PartialEq, Eq)]
enum Item {
    Leaf(Vec<u8>, u8),
    Hidden([u8; 32]),
}

impl T {
    fn root(&self) -> [u8; 32] {
        match self {
            T::Leaf(s, v) => o_leaf(s, *v),
            T::Hidden(h) => *h,
            T::Node(l, r) => o_branch(&l.root(), &r.root()),
        }
    }
    fn dfs(&self, d: usize, out: &mut Vec<(usize, Item)>) {
        match self {
            T::Leaf(s, v) => out.push((d, Item::Leaf(s.clone(), *v))),
            T::Hidden(h) => out.push((d, Item::Hidden(*h))),
            T::Node(l, r) => {
                l.dfs(d + 1, out);
                r.dfs(d + 1, out);
            }
        }
    }
    /// leaves in DFS order with their sibling paths, computed top-down (path = bottom-up list)
    fn paths(&self, above: &[[u8; 32]], out: &mut Vec<(Vec<u8>, u8, Vec<[u8; 32]>)>) {
        match self {
            T::Leaf(s, v) => {
                let mut p: Vec<[u8; 32]> = above.to_vec();
                p.reverse();
                out.push((s.clone(), *v, p));
            }
            T::Hidden(_) => {}
            T::Node(l, r) => {
                let mut a = above.to_vec();
                a.push(r.root());
                l.paths(&a, out);
                a.pop();
                a.push(l.root());
                r.paths(&a, out);
            }
        }
    }
}

fn listing_str(items: &[(usize, Item)]) -> String {
    if items.is_empty() {
        return "-".into();
    }
    items
        .iter()
        .map(|(d, it)| match it {
            Item::Leaf(s, v) => format!("{}:L:{}:{}", d, v, hex(s)),
            Item::Hidden(h) => format!("{}:H:{}", d, hex(h)),
        })
        .collect::<Vec<_>>()
        .join(",")
}

fn flat(v: &[TapNodeHash]) -> Vec<u8> {
    v.iter().flat_map(|h| h.to_byte_array()).collect()
}
fn flat32(v: &[[u8; 32]]) -> Vec<u8> {
    v.iter().flat_map(|h| h.to_vec()).collect()
}

struct Ctx {
    secp: Secp256k1<All>,
    kp: Keypair,
    key: XOnlyPublicKey,
}

fn new_ctx(rng: &mut R) -> Ctx {
    let secp = Secp256k1::new();
    let sk = gen::seckey(rng);
    let kp = Keypair::from_secret_key(&secp, &sk);
    let (key, _) = XOnlyPublicKey::from_keypair(&kp);
    Ctx { secp, kp, key }
}

fn err_char(e: &TaprootBuilderError) -> &'static str {
    match e {
        TaprootBuilderError::InvalidMerkleTreeDepth(_) => "D",
        TaprootBuilderError::NodeNotInDfsOrder => "N",
        TaprootBuilderError::OverCompleteTree => "C",
        _ => "?",
    }
}

/// run the real builder step by step
fn run_builder(items: &[(usize, Item)]) -> (String, Option<TaprootBuilder>) {
    let mut st = String::new();
    let mut b = TaprootBuilder::new();
    for (d, it) in items {
        let r = match it {
            Item::Leaf(s, v) => match LeafVersion::from_u8(*v) {
                Ok(lv) => b.add_leaf_with_ver(*d, Script::from(s.clone()), lv),
                Err(_) => {
                    st.push('V');
                    return (st, None);
                }
            },
            Item::Hidden(h) => b.add_hidden(*d, TapNodeHash::from_byte_array(*h)),
        };
        match r {
            Ok(nb) => {
                st.push('o');
                b = nb;
            }
            Err(e) => {
                st.push_str(err_char(&e));
                return (st, None);
            }
        }
    }
    (st, Some(b))
}

fn json_bytes(v: &serde_json::Value) -> Vec<u8> {
    match v {
        serde_json::Value::String(s) => unhex(if s.is_empty() { "-" } else { s }),
        serde_json::Value::Array(a) => a.iter().map(|x| x.as_u64().unwrap() as u8).collect(),
        _ => panic!("unexpected json for bytes"),
    }
}

/// leaves of the root node of a complete builder, in the builder's order: (script, ver, branch)
fn builder_leaves(b: &TaprootBuilder) -> Vec<(Vec<u8>, u8, Vec<u8>)> {
    let v = serde_json::to_value(b).expect("json");
    let root = &v["branch"][0];
    let mut out = vec![];
    for l in root["leaves"].as_array().expect("leaves") {
        let script = json_bytes(&l["script"]);
        let ver = l["ver"].as_u64().expect("ver") as u8;
        let mut br = vec![];
        for h in l["merkle_branch"].as_array().expect("mb") {
            br.extend(json_bytes(h));
        }
        out.push((script, ver, br));
    }
    out
}

fn show_leaves(ls: &[(Vec<u8>, u8, Vec<u8>)]) -> String {
    if ls.is_empty() {
        return "-".into();
    }
    ls.iter().map(|(s, v, b)| format!("{}:{}:{}", hex(s), v, hex(b))).collect::<Vec<_>>().join(",")
}

fn show_spend(cx: &Ctx, si: &TaprootSpendInfo) -> String {
    let root = match si.merkle_root() {
        Some(r) => hex(&r.to_byte_array()),
        None => "none".into(),
    };
    let spk = Script::new_v1_p2tr_tweaked(si.output_key());
    let m = si.as_script_map();
    let map = if m.is_empty() {
        "-".to_string()
    } else {
        m.iter()
            .map(|((s, v), set)| {
                let brs = set.iter().map(|b| hex(&flat(b.as_inner()))).collect::<Vec<_>>().join("/");
                let cb = match si.control_block(&(s.clone(), *v)) {
                    Some(cb) => hex(&cb.serialize()),
                    None => "none".into(),
                };
                format!("{}:{}:{}:{}", hex(s.as_bytes()), v.as_u8(), brs, cb)
            })
            .collect::<Vec<_>>()
            .join(",")
    };
    let _ = cx;
    format!(
        "{} {} {} {} {} {}",
        root,
        hex(&si.tap_tweak().to_byte_array()),
        hex(&si.output_key().as_inner().serialize()),
        if si.output_key_parity() == Parity::Odd { 1 } else { 0 },
        hex(spk.as_bytes()),
        map
    )
}

/// the real `add_tweak` result for the tweak hash the real code computes — the EC oracle handed to the model
fn oracle_args(cx: &Ctx, key: &XOnlyPublicKey, root: Option<TapNodeHash>) -> String {
    let t = TapTweakHash::from_key_and_tweak(*key, root);
    match Scalar::from_be_bytes(t.to_byte_array()) {
        Ok(sc) => match key.add_tweak(&cx.secp, &sc) {
            Ok((q, par)) => format!("{} {}", hex(&q.serialize()), if par == Parity::Odd { 1 } else { 0 }),
            Err(_) => "none 0".into(),
        },
        Err(_) => "none 0".into(),
    }
}

/// real-code recomputation of the root a control block commits to (tagged engines of the crate)
fn real_root(cb: &ControlBlock, script: &Script) -> TapNodeHash {
    let lh = TapLeafHash::from_script(script, cb.leaf_version);
    let mut cur = TapNodeHash::from_byte_array(lh.to_byte_array());
    for e in cb.merkle_branch.as_inner() {
        let mut eng = sha256t::Hash::<TapBranchTag>::engine();
        if cur.as_byte_array() < e.as_byte_array() {
            eng.input(cur.as_ref());
            eng.input(e.as_ref());
        } else {
            eng.input(e.as_ref());
            eng.input(cur.as_ref());
        }
        cur = TapNodeHash::from_byte_array(sha256t::Hash::<TapBranchTag>::from_engine(eng).to_byte_array());
    }
    cur
}

/// verify one (control block, script, output key) triple on the real code; emit K ops when asked
fn check_verify(cx: &Ctx, out: &mut Out, cb: &ControlBlock, script: &Script, okey: &TweakedPublicKey, expect: bool, what: &str, emit_k: bool) {
    let cbs = cb.serialize();
    let real = cb.verify_taproot_commitment(&cx.secp, okey, script);
    out.s(what, real == expect, || format!("cb={} script={} outkey={} verify={} expected={}", hex(&cbs), hex(script.as_bytes()), hex(&okey.as_inner().serialize()), real, expect));
    // the verdict is exactly the tweak check for TapTweak(internal ‖ recomputed root)
    let root = real_root(cb, script);
    let t = TapTweakHash::from_key_and_tweak(cb.internal_key, Some(root));
    let chk = match Scalar::from_be_bytes(t.to_byte_array()) {
        Ok(sc) => cb.internal_key.tweak_add_check(&cx.secp, okey.as_inner(), cb.output_key_parity, sc),
        Err(_) => false,
    };
    out.s("verify_is_tweak_check_of_recomputed_root", real == chk, || format!("cb={} script={}", hex(&cbs), hex(script.as_bytes())));
    if emit_k {
        out.k(format!("tap.verifyroot {} {}", hex(&cbs), hex(script.as_bytes())), format!("ok {} {}", hex(&root.to_byte_array()), hex(&t.to_byte_array())));
        out.k(
            format!("tap.verify {} {} {} {}", hex(&cbs), hex(script.as_bytes()), hex(&okey.as_inner().serialize()), if chk { 1 } else { 0 }),
            Out::guard(|| format!("ok {}", if real { 1 } else { 0 })),
        );
    }
}

fn other_version(v: u8, rng: &mut R) -> u8 {
    loop {
        let c = [0xc0u8, 0xc2, 0xc4, 0xc6, 0x66, 0xfe, 0x00, 0x52][rng.gen_range(0..8)];
        if c != v {
            return c;
        }
    }
}

/// the whole property on one spend info whose tree is known (`paths` = oracle leaves with sibling paths)
fn check_spend(cx: &Ctx, rng: &mut R, out: &mut Out, si: &TaprootSpendInfo, oroot: Option<[u8; 32]>, paths: &[(Vec<u8>, u8, Vec<[u8; 32]>)], k_budget: &mut usize) {
    let key = si.internal_key();
    let okey = si.output_key();
    // output key = internal key tweaked by TapTweak(internal ‖ root), computed independently
    let keyb = key.serialize();
    let t = o_tweak(&keyb, oroot.as_ref());
    out.s("merkle_root_is_oracle_root", si.merkle_root().map(|r| r.to_byte_array()) == oroot, || format!("root={:?} oracle={:?}", si.merkle_root(), oroot.map(|r| hex(&r))));
    out.s("tap_tweak_hash_is_tagged_hash", si.tap_tweak().to_byte_array() == t, || hex(&keyb));
    if let Ok(sc) = Scalar::from_be_bytes(t) {
        let p = PublicKey::from_x_only_public_key(key, Parity::Even);
        let q = p.add_exp_tweak(&cx.secp, &sc).expect("tweak");
        let (qx, par) = q.x_only_public_key();
        out.s("output_key_def", qx == *okey.as_inner() && par == si.output_key_parity(), || format!("key={} root={:?}", hex(&keyb), oroot.map(|r| hex(&r))));
        // key pair: tweaking the matching key pair yields the secret key of exactly that output key
        if key == cx.key {
            let root_h = oroot.map(TapNodeHash::from_byte_array);
            let tk = cx.kp.tap_tweak(&cx.secp, root_h);
            let (pk2, par2) = tk.public_parts();
            out.s("keypair_tweak_public_is_output_key", pk2 == okey && par2 == si.output_key_parity(), || hex(&keyb));
            let sk_t = tk.to_inner().secret_key();
            let pub_t = PublicKey::from_secret_key(&cx.secp, &sk_t);
            out.s("keypair_tweak_secret_opens_output_key", pub_t.x_only_public_key() == (*okey.as_inner(), si.output_key_parity()), || hex(&keyb));
            // BIP341: negate when the internal point is odd, then add the tweak
            let sk0 = cx.kp.secret_key();
            let (_, p0) = cx.kp.x_only_public_key();
            let sk1 = if p0 == Parity::Odd { sk0.negate() } else { sk0 };
            let manual: Option<SecretKey> = sk1.add_tweak(&sc).ok();
            out.s("keypair_tweak_secret_is_bip341", manual == Some(sk_t), || hex(&keyb));
        }
    }
    // p2tr script and address
    let spk = Script::new_v1_p2tr_tweaked(okey);
    let mut exp = vec![0x51u8, 0x20];
    exp.extend_from_slice(&okey.as_inner().serialize());
    let root_h = oroot.map(TapNodeHash::from_byte_array);
    out.s("p2tr_script_layout", spk.as_bytes() == &exp[..] && Script::new_v1_p2tr(&cx.secp, key, root_h).as_bytes() == &exp[..], || hex(spk.as_bytes()));
    let addr = Address::p2tr(&cx.secp, key, root_h, None, &AddressParams::ELEMENTS);
    out.s("p2tr_address_script", addr.script_pubkey().as_bytes() == &exp[..], || hex(&exp));

    // script map covers every leaf and nothing else
    let mut want: std::collections::BTreeMap<(Vec<u8>, u8), BTreeSet<Vec<u8>>> = Default::default();
    for (s, v, p) in paths {
        want.entry((s.clone(), *v)).or_default().insert(flat32(p));
    }
    let got: std::collections::BTreeMap<(Vec<u8>, u8), BTreeSet<Vec<u8>>> = si
        .as_script_map()
        .iter()
        .map(|((s, v), set)| ((s.as_bytes().to_vec(), v.as_u8()), set.iter().map(|b| flat(b.as_inner())).collect()))
        .collect();
    out.s("script_map_is_leaf_set", want == got, || format!("want={:?} got={:?}", want.keys().map(|k| hex(&k.0)).collect::<Vec<_>>(), got.keys().map(|k| hex(&k.0)).collect::<Vec<_>>()));

    let other_key = {
        let kp2 = Keypair::from_secret_key(&cx.secp, &gen::seckey(rng));
        TweakedPublicKey::new(XOnlyPublicKey::from_keypair(&kp2).0)
    };
    for (s, v, p) in paths {
        let script = Script::from(s.clone());
        let lv = LeafVersion::from_u8(*v).expect("valid version");
        let emit = *k_budget > 0;
        if emit {
            *k_budget -= 1;
        }
        // the control block handed out for this (script, version)
        let cb = match si.control_block(&(script.clone(), lv)) {
            Some(cb) => cb,
            None => {
                out.s("control_block_exists", false, || hex(s));
                continue;
            }
        };
        out.s("control_block_exists", true, || String::new());
        let min_len = want[&(s.clone(), *v)].iter().map(|b| b.len() / 32).min().unwrap();
        out.s("control_block_is_shortest", cb.merkle_branch.as_inner().len() == min_len, || hex(s));
        check_verify(cx, out, &cb, &script, &okey, true, "cb_verifies", emit);
        // this occurrence's own path (duplicates at different depths)
        let own = ControlBlock {
            leaf_version: lv,
            output_key_parity: si.output_key_parity(),
            internal_key: key,
            merkle_branch: TaprootMerkleBranch::from_inner(p.iter().map(|h| TapNodeHash::from_byte_array(*h)).collect()).expect("<=128"),
        };
        check_verify(cx, out, &own, &script, &okey, true, "cb_of_each_occurrence_verifies", false);
        // serialization
        let ser = own.serialize();
        out.s("cb_size", ser.len() == 33 + 32 * p.len() && own.size() == ser.len(), || hex(&ser));
        out.s("cb_roundtrip", ControlBlock::from_slice(&ser).ok().as_ref() == Some(&own), || hex(&ser));
        out.s("cb_first_byte", ser[0] == (*v | if si.output_key_parity() == Parity::Odd { 1 } else { 0 }) && ser[1..33] == keyb, || hex(&ser));
        if emit {
            cb_op(out, &ser);
        }
        // negative directions
        let mut s2 = s.clone();
        s2.push(0x6a);
        if !want.contains_key(&(s2.clone(), *v)) {
            check_verify(cx, out, &own, &Script::from(s2), &okey, false, "other_script_fails", emit);
        }
        let v2 = other_version(*v, rng);
        if !want.contains_key(&(s.clone(), v2)) {
            let mut c2 = own.clone();
            c2.leaf_version = LeafVersion::from_u8(v2).unwrap();
            check_verify(cx, out, &c2, &script, &okey, false, "other_version_fails", emit);
        }
        if !p.is_empty() {
            let mut p2 = p.clone();
            let i = rng.gen_range(0..p2.len());
            p2[i][rng.gen_range(0..32)] ^= 1 << rng.gen_range(0..8);
            let mut c2 = own.clone();
            c2.merkle_branch = TaprootMerkleBranch::from_inner(p2.iter().map(|h| TapNodeHash::from_byte_array(*h)).collect()).unwrap();
            check_verify(cx, out, &c2, &script, &okey, false, "flipped_branch_byte_fails", emit);
            let mut c3 = own.clone();
            let mut p3: Vec<TapNodeHash> = p.iter().map(|h| TapNodeHash::from_byte_array(*h)).collect();
            if rng.gen_bool(0.5) {
                p3.pop();
            } else {
                p3.remove(0);
            }
            c3.merkle_branch = TaprootMerkleBranch::from_inner(p3).unwrap();
            check_verify(cx, out, &c3, &script, &okey, false, "truncated_branch_fails", false);
        }
        if p.len() < 128 {
            let mut c4 = own.clone();
            let mut p4: Vec<TapNodeHash> = p.iter().map(|h| TapNodeHash::from_byte_array(*h)).collect();
            let extra = TapNodeHash::from_byte_array(gen::arr32(rng));
            if rng.gen_bool(0.5) {
                p4.push(extra);
            } else {
                p4.insert(0, extra);
            }
            c4.merkle_branch = TaprootMerkleBranch::from_inner(p4).unwrap();
            check_verify(cx, out, &c4, &script, &okey, false, "extended_branch_fails", false);
        }
        let mut c5 = own.clone();
        c5.output_key_parity = if own.output_key_parity == Parity::Odd { Parity::Even } else { Parity::Odd };
        check_verify(cx, out, &c5, &script, &okey, false, "flipped_parity_fails", emit);
        check_verify(cx, out, &own, &script, &other_key, false, "other_output_key_fails", emit);
        let mut c6 = own.clone();
        c6.internal_key = *other_key.as_inner();
        check_verify(cx, out, &c6, &script, &okey, false, "other_internal_key_fails", false);
    }
}

fn cb_op(out: &mut Out, bytes: &[u8]) {
    let real = Out::guard(|| match ControlBlock::from_slice(bytes) {
        Ok(cb) => format!(
            "ok {} {} {} {} {} {}",
            cb.leaf_version.as_u8(),
            if cb.output_key_parity == Parity::Odd { 1 } else { 0 },
            hex(&cb.internal_key.serialize()),
            cb.merkle_branch.as_inner().len(),
            hex(&cb.serialize()),
            cb.size()
        ),
        Err(_) => "err".into(),
    });
    out.count(if real.starts_with("ok") { "cb.decode.ok" } else { "cb.decode.err" });
    if let Ok(cb) = ControlBlock::from_slice(bytes) {
        out.s("cb_decode_then_encode_is_identity", cb.serialize() == bytes, || hex(bytes));
        out.s("cb_length_form", bytes.len() >= 33 && (bytes.len() - 33) % 32 == 0 && (bytes.len() - 33) / 32 <= 128, || hex(bytes));
    }
    out.k(format!("tap.cb {}", hex(bytes)), real);
}

/// one listing through the builder: K `tap.build`, then (if it finalizes) spend info checks
fn one_listing(cx: &Ctx, rng: &mut R, out: &mut Out, items: &[(usize, Item)], tree: Option<&T>, emit_k: bool, deep_checks: bool) -> bool {
    let ls = listing_str(items);
    let (st, ob) = run_builder(items);
    let mut accepted = false;
    let res = match &ob {
        None => format!("ok {} stopped", st),
        Some(b) => {
            let c = if b.is_complete() { "1" } else { "0" };
            let stt = if st.is_empty() { "-".to_string() } else { st.clone() };
            match Out::guard(|| match b.clone().finalize(&cx.secp, cx.key) {
                Ok(si) => format!("F {}", hex(&si.merkle_root().expect("root").to_byte_array())),
                Err(TaprootBuilderError::IncompleteTree) => "IncompleteTree".into(),
                Err(TaprootBuilderError::EmptyTree) => "EmptyTree".into(),
                Err(_) => "other".into(),
            })
            .as_str()
            {
                "panic" => "panic".to_string(),
                s if s.starts_with("F ") => {
                    accepted = true;
                    format!("ok {} {} {} {}", stt, c, &s[2..], show_leaves(&builder_leaves(b)))
                }
                s => format!("ok {} {} {}", stt, c, s),
            }
        }
    };
    if emit_k {
        out.k(format!("tap.build {}", ls), res.clone());
    }
    out.count(if accepted { "build.accepted" } else { "build.refused" });
    for ch in st.chars() {
        if ch != 'o' {
            out.count(&format!("build.err.{}", ch));
        }
    }
    if let Some(b) = &ob {
        out.s("complete_iff_finalizes", b.is_complete() == accepted, || ls.clone());
    }
    if let Some(t) = tree {
        // a genuine DFS listing of a tree of height <= 128 must be accepted, with the oracle's root, leaf order and paths
        let mut paths = vec![];
        t.paths(&[], &mut paths);
        let maxd = items.iter().map(|x| x.0).max().unwrap_or(0);
        if maxd <= 128 {
            out.s("dfs_listing_accepted", accepted, || ls.clone());
        } else {
            out.s("over_deep_refused", !accepted && st.ends_with('D'), || ls.clone());
        }
        if accepted {
            let b = ob.as_ref().unwrap();
            let leaves = builder_leaves(b);
            let want: Vec<(Vec<u8>, u8, Vec<u8>)> = paths.iter().map(|(s, v, p)| (s.clone(), *v, flat32(p))).collect();
            out.s("leaves_in_dfs_order_with_sibling_paths", leaves == want, || ls.clone());
            let depths: Vec<usize> = items.iter().filter(|x| matches!(x.1, Item::Leaf(..))).map(|x| x.0).collect();
            out.s("branch_length_is_depth", leaves.iter().map(|l| l.2.len() / 32).collect::<Vec<_>>() == depths, || ls.clone());
            let si = b.clone().finalize(&cx.secp, cx.key).unwrap();
            if emit_k {
                out.k(format!("tap.spend {} {} {}", hex(&cx.key.serialize()), ls, oracle_args(cx, &cx.key, si.merkle_root())), Out::guard(|| format!("ok {}", show_spend(cx, &si))));
            }
            if deep_checks {
                let mut kb = if emit_k { 3 } else { 0 };
                check_spend(cx, rng, out, &si, Some(t.root()), &paths, &mut kb);
            }
            // PSET tap tree: leaf order survives serialization (regression: fix 0e43b3e)
            if !items.iter().any(|x| matches!(x.1, Item::Hidden(_))) && maxd <= 128 {
                match TapTree::from_inner(b.clone()) {
                    Ok(tt) => {
                        let ser = PsetSer::serialize(&tt);
                        let mut exp = vec![];
                        for (d, it) in items {
                            if let Item::Leaf(s, v) = it {
                                exp.push(*d as u8);
                                exp.push(*v);
                                exp.extend(compact_size(s.len()));
                                exp.extend_from_slice(s);
                            }
                        }
                        out.s("pset_taptree_is_dfs_listing", ser == exp, || format!("{} ser={}", ls, hex(&ser)));
                        let back = <TapTree as PsetDe>::deserialize(&ser);
                        out.s("pset_taptree_roundtrip", back.as_ref().map(|t2| PsetSer::serialize(t2) == ser && t2.clone().into_inner() == *b).unwrap_or(false), || format!("{} ser={}", ls, hex(&ser)));
                    }
                    Err(_) => out.s("pset_taptree_from_complete_builder", false, || ls.clone()),
                }
            }
        }
    }
    accepted
}

// ------------------------------------------------------------------ generators

fn gen_script(rng: &mut R, pool: &mut Vec<Vec<u8>>) -> Vec<u8> {
    if !pool.is_empty() && rng.gen_bool(0.2) {
        return pool[rng.gen_range(0..pool.len())].clone();
    }
    let n = match rng.gen_range(0..20) {
        0 => 0,
        1 => 252,
        2 => 253,
        3 => 254,
        4 => 70000,
        _ => rng.gen_range(1..40),
    };
    let s = gen::bytes(rng, n);
    pool.push(s.clone());
    s
}
fn gen_ver(rng: &mut R) -> u8 {
    if rng.gen_bool(0.7) {
        0xc4
    } else {
        [0xc0u8, 0xc2, 0xc6, 0x66, 0x7e, 0x80, 0xfe, 0x00, 0x52, 0x4e][rng.gen_range(0..10)]
    }
}
fn gen_tree(rng: &mut R, leaves: usize, hidden_p: f64, pool: &mut Vec<Vec<u8>>) -> T {
    if leaves <= 1 {
        if rng.gen_bool(hidden_p) {
            T::Hidden(gen::arr32(rng))
        } else {
            T::Leaf(gen_script(rng, pool), gen_ver(rng))
        }
    } else {
        let l = rng.gen_range(1..leaves);
        let a = gen_tree(rng, l, hidden_p, pool);
        let b = gen_tree(rng, leaves - l, hidden_p, pool);
        T::Node(Box::new(a), Box::new(b))
    }
}
/// a degenerate chain: one leaf at each depth 1..=d-1 and two at depth d
fn chain(d: usize, hidden: bool, rng: &mut R) -> T {
    let mk = |rng: &mut R, i: usize| if hidden && i % 2 == 0 { T::Hidden(gen::arr32(rng)) } else { T::Leaf(vec![0x51, (i & 0xff) as u8, (i >> 8) as u8], 0xc4) };
    let mut t = mk(rng, 0);
    for i in 1..=d {
        let s = mk(rng, i);
        t = if rng.gen_bool(0.5) { T::Node(Box::new(s), Box::new(t)) } else { T::Node(Box::new(t), Box::new(s)) };
    }
    t
}

/// oracle: is `depths` the DFS depth sequence of a binary tree?
fn valid_depths(depths: &[usize]) -> bool {
    fn parse(ds: &[usize], pos: &mut usize, d: usize) -> bool {
        if *pos >= ds.len() {
            return false;
        }
        if ds[*pos] == d {
            *pos += 1;
            true
        } else if ds[*pos] > d {
            parse(ds, pos, d + 1) && parse(ds, pos, d + 1)
        } else {
            false
        }
    }
    let mut pos = 0;
    parse(depths, &mut pos, 0) && pos == depths.len()
}

fn all_depth_sequences(cx: &Ctx, rng: &mut R, out: &mut Out, n: usize, emit_k: bool, hidden_mask: usize) {
    let base = n + 1;
    let total = base.pow(n as u32);
    for code in 0..total {
        let mut c = code;
        let mut ds = Vec::with_capacity(n);
        for _ in 0..n {
            ds.push(c % base);
            c /= base;
        }
        let items: Vec<(usize, Item)> = ds
            .iter()
            .enumerate()
            .map(|(i, d)| {
                if hidden_mask >> i & 1 == 1 {
                    (*d, Item::Hidden([i as u8 + 1; 32]))
                } else {
                    (*d, Item::Leaf(vec![0x51 + (i % 3) as u8], 0xc4))
                }
            })
            .collect();
        let acc = one_listing(cx, rng, out, &items, None, emit_k, false);
        let valid = valid_depths(&ds);
        out.s("accepted_iff_dfs_depth_sequence", acc == valid, || listing_str(&items));
        out.count(if valid { "seq.valid" } else { "seq.invalid" });
    }
}

// ------------------------------------------------------------------ Huffman

fn caterpillar_scripts(n: usize) -> Vec<Vec<u8>> {
    use elements::hashes::{sha256t, Hash, HashEngine};
    use elements::taproot::{TapBranchTag, TapLeafHash};
    let leaf = |s: &Vec<u8>| TapLeafHash::from_script(&Script::from(s.clone()), LeafVersion::default()).to_byte_array();
    let branch = |a: &[u8; 32], b: &[u8; 32]| {
        let mut eng = sha256t::Hash::<TapBranchTag>::engine();
        if a < b { eng.input(a); eng.input(b); } else { eng.input(b); eng.input(a); }
        sha256t::Hash::<TapBranchTag>::from_engine(eng).to_byte_array()
    };
    let pool: Vec<(Vec<u8>, [u8; 32])> = (0..2000u32).map(|i| { let mut v = vec![0x04]; v.extend_from_slice(&i.to_le_bytes()); let h = leaf(&v); (v, h) }).collect();
    let highs: Vec<&(Vec<u8>, [u8; 32])> = pool.iter().filter(|x| x.1[0] >= 0x80).collect();
    let mut lows: Vec<&(Vec<u8>, [u8; 32])> = pool.iter().filter(|x| x.1[0] < 0x80).collect();
    lows.sort_by(|a, b| b.1.cmp(&a.1));
    let mut seed = None;
    'outer: for a in &highs {
        for b in &highs {
            if a.1 != b.1 && branch(&a.1, &b.1)[0] >= 0x80 { seed = Some((*a, *b)); break 'outer; }
        }
    }
    let (a, b) = seed.expect("seed pair");
    let mut outv = vec![a.0.clone(), b.0.clone()];
    let mut cur = branch(&a.1, &b.1);
    for l in lows {
        if outv.len() >= n { break; }
        let next = branch(&cur, &l.1);
        if next[0] >= 0x80 { outv.push(l.0.clone()); cur = next; }
    }
    outv.truncate(n);
    outv
}

fn huffman_caterpillar(cx: &Ctx, out: &mut Out, n: usize) {
    let scripts = caterpillar_scripts(n);
    if scripts.len() != n { out.count("huffman.caterpillar.pool_too_small"); return; }
    let ws: Vec<(u32, Vec<u8>)> = scripts.iter().map(|s| (0u32, s.clone())).collect();
    let arg = ws.iter().map(|(w, s)| format!("{}:{}", w, hex(s))).collect::<Vec<_>>().join(",");
    let r = TaprootSpendInfo::with_huffman_tree(&cx.secp, cx.key, ws.iter().map(|(w, s)| (*w, Script::from(s.clone()))));
    let res = match &r {
        Ok(si) => format!("ok {}", show_spend(cx, si)),
        Err(TaprootBuilderError::IncompleteTree) => "err IncompleteTree".into(),
        Err(TaprootBuilderError::InvalidMerkleTreeDepth(_)) => "err InvalidMerkleTreeDepth".into(),
        Err(_) => "err other".into(),
    };
    let orc = match &r { Ok(si) => oracle_args(cx, &cx.key, si.merkle_root()), Err(_) => "none 0".into() };
    out.k(format!("tap.huffman {} {} {}", hex(&cx.key.serialize()), arg, orc), res);
    out.count(&format!("huffman.caterpillar.n{}", n));
    match r {
        Ok(si) => {
            let deepest = si.as_script_map().get(&(Script::from(scripts[0].clone()), LeafVersion::default())).map(|bs| bs.iter().map(|b| b.as_inner().len()).max().unwrap_or(0)).unwrap_or(0);
            out.s("huffman_caterpillar_depth", deepest == n - 1, || format!("n={} deepest={}", n, deepest));
            out.s("huffman_over_deep_refused", n - 1 <= 128, || format!("n={} accepted with depth {}", n, deepest));
            if let Some(cb) = si.control_block(&(Script::from(scripts[0].clone()), LeafVersion::default())) {
                let ser = cb.serialize();
                out.s("huffman_deep_cb_roundtrip", ControlBlock::from_slice(&ser).map(|c| c == cb).unwrap_or(false), || format!("n={} cb_len={}", n, ser.len()));
            }
        }
        Err(_) => out.s("huffman_depth_128_accepted", n - 1 > 128, || format!("n={} refused", n)),
    }
}

fn huffman_case(cx: &Ctx, rng: &mut R, out: &mut Out, ws: &[(u32, Vec<u8>)], emit_k: bool, deep: bool) {
    let arg = if ws.is_empty() { "-".to_string() } else { ws.iter().map(|(w, s)| format!("{}:{}", w, hex(s))).collect::<Vec<_>>().join(",") };
    let r = TaprootSpendInfo::with_huffman_tree(&cx.secp, cx.key, ws.iter().map(|(w, s)| (*w, Script::from(s.clone()))));
    if emit_k {
        let res = match &r {
            Ok(si) => format!("ok {}", show_spend(cx, si)),
            Err(TaprootBuilderError::IncompleteTree) => "err IncompleteTree".into(),
            Err(TaprootBuilderError::InvalidMerkleTreeDepth(_)) => "err InvalidMerkleTreeDepth".into(),
            Err(_) => "err other".into(),
        };
        let orc = match &r {
            Ok(si) => oracle_args(cx, &cx.key, si.merkle_root()),
            Err(_) => "none 0".into(),
        };
        out.k(format!("tap.huffman {} {} {}", hex(&cx.key.serialize()), arg, orc), res);
    }
    out.s("huffman_empty_refused_else_built", r.is_ok() == !ws.is_empty(), || arg.clone());
    let si = match r {
        Ok(si) => si,
        Err(_) => return,
    };
    let distinct: BTreeSet<&Vec<u8>> = ws.iter().map(|x| &x.1).collect();
    let m = si.as_script_map();
    out.s("huffman_map_covers_every_script", m.len() == distinct.len() && ws.iter().all(|(_, s)| m.contains_key(&(Script::from(s.clone()), LeafVersion::default()))), || arg.clone());
    if distinct.len() == ws.len() {
        out.count("huffman.distinct_scripts");
        let depth = |s: &Vec<u8>| m[&(Script::from(s.clone()), LeafVersion::default())].iter().next().unwrap().as_inner().len();
        let mut mono = true;
        for (wi, si_) in ws {
            for (wj, sj) in ws {
                if wi > wj && depth(si_) > depth(sj) {
                    mono = false;
                }
            }
        }
        out.s("huffman_heavier_not_deeper", mono, || arg.clone());
        // Kraft equality: the leaves form a full binary tree
        let kraft: f64 = ws.iter().map(|(_, s)| 0.5f64.powi(depth(s) as i32)).sum();
        out.s("huffman_full_tree", (kraft - 1.0).abs() < 1e-9 || ws.len() > 60, || arg.clone());
        // optimal cost against an independent two-queue-free reference (sorted vector, u128 arithmetic)
        let mut pool: Vec<u128> = ws.iter().map(|x| x.0 as u128).collect();
        let mut cost_ref: u128 = 0;
        while pool.len() > 1 {
            pool.sort();
            let a = pool.remove(0);
            let b = pool.remove(0);
            cost_ref += a + b;
            pool.push(a + b);
        }
        let cost: u128 = ws.iter().map(|(w, s)| *w as u128 * depth(s) as u128).sum();
        out.s("huffman_cost_optimal", cost == cost_ref, || format!("{} cost={} ref={}", arg, cost, cost_ref));
        if deep {
            // rebuild the oracle leaf paths from the map and run the whole control-block property
            let paths: Vec<(Vec<u8>, u8, Vec<[u8; 32]>)> = ws
                .iter()
                .map(|(_, s)| {
                    let br = m[&(Script::from(s.clone()), LeafVersion::default())].iter().next().unwrap();
                    (s.clone(), 0xc4u8, br.as_inner().iter().map(|h| h.to_byte_array()).collect())
                })
                .collect();
            // the root recomputed independently from any leaf and its path
            let mut cur = o_leaf(&paths[0].0, 0xc4);
            for e in &paths[0].2 {
                cur = o_branch(&cur, e);
            }
            let mut kb = 0;
            check_spend(cx, rng, out, &si, Some(cur), &paths, &mut kb);
        }
    } else {
        out.count("huffman.duplicate_scripts");
    }
}

fn all_weight_vectors(cx: &Ctx, rng: &mut R, out: &mut Out, n: usize, dom: &[u32]) {
    let total = dom.len().pow(n as u32);
    for code in 0..total {
        let mut c = code;
        let ws: Vec<(u32, Vec<u8>)> = (0..n)
            .map(|i| {
                let w = dom[c % dom.len()];
                c /= dom.len();
                (w, vec![0x51, i as u8])
            })
            .collect();
        huffman_case(cx, rng, out, &ws, false, false);
    }
}

// ------------------------------------------------------------------ entry

pub fn run(rng: &mut R, out: &mut Out) {
    let th = out.tier_thorough;
    let scale = if th { 12 } else { 1 };
    let cx = new_ctx(rng);

    // tagged hash self tests (Elements tags) and LeafVersion::from_u8 for every byte
    for i in 0..(20 * scale) {
        let s = if i == 0 { vec![] } else { let n = [1usize, 5, 33, 252, 253, 300][i % 6]; gen::bytes(rng, n) };
        let v = gen_ver(rng);
        let lv = LeafVersion::from_u8(v).unwrap();
        let real = TapLeafHash::from_script(&Script::from(s.clone()), lv).to_byte_array();
        out.k(format!("tap.leafhash {} {}", hex(&s), v), format!("ok {}", hex(&real)));
        out.s("leaf_hash_is_elements_tagged_hash", real == o_leaf(&s, v), || hex(&s));
        let (a, b) = (gen::arr32(rng), gen::arr32(rng));
        let na = NodeInfoProbe::combine_hash(&cx, &a, &b);
        out.k(format!("tap.branchhash {} {}", hex(&a), hex(&b)), format!("ok {}", hex(&na)));
        out.s("branch_hash_is_sorted_pair_tagged_hash", na == o_branch(&a, &b) && na == NodeInfoProbe::combine_hash(&cx, &b, &a), || hex(&a));
        let root = if i % 3 == 0 { None } else { Some(gen::arr32(rng)) };
        let tw = TapTweakHash::from_key_and_tweak(cx.key, root.map(TapNodeHash::from_byte_array)).to_byte_array();
        out.k(format!("tap.tweakhash {} {}", hex(&cx.key.serialize()), root.map(|r| hex(&r)).unwrap_or("none".into())), format!("ok {}", hex(&tw)));
        out.s("tweak_hash_is_elements_tagged_hash", tw == o_tweak(&cx.key.serialize(), root.as_ref()), || hex(&tw));
    }
    for v in 0..=255u8 {
        let real = match LeafVersion::from_u8(v) {
            Ok(l) => format!("ok {}", l.as_u8()),
            Err(_) => "err".into(),
        };
        out.k(format!("tap.leafver {}", v), real.clone());
        out.s("leaf_version_rule", real.starts_with("ok") == (v & 1 == 0 && v != 0x50), || v.to_string());
    }
    out.s("default_leaf_version_is_c4", LeafVersion::default().as_u8() == 0xc4, || String::new());

    // key-spend only outputs
    for i in 0..(6 * scale) {
        let root = if i % 2 == 0 { None } else { Some(TapNodeHash::from_byte_array(gen::arr32(rng))) };
        let si = TaprootSpendInfo::new_key_spend(&cx.secp, cx.key, root);
        out.k(format!("tap.keyspend {} {} {}", hex(&cx.key.serialize()), root.map(|r| hex(&r.to_byte_array())).unwrap_or("none".into()), oracle_args(&cx, &cx.key, root)), format!("ok {}", show_spend(&cx, &si)));
        let mut kb = 0;
        check_spend(&cx, rng, out, &si, root.map(|r| r.to_byte_array()), &[], &mut kb);
    }

    // regression corpus: the two trees of the crate's unit tests, single leaf, single hidden, duplicates
    let l = |b: u8| T::Leaf(vec![b], 0xc4);
    let n = |a: T, b: T| T::Node(Box::new(a), Box::new(b));
    let fixed = vec![
        l(0x51),
        T::Hidden([7; 32]),
        n(n(l(0x51), l(0x52)), n(l(0x53), n(l(0x54), l(0x55)))),
        n(l(0x51), l(0x51)),
        n(l(0x51), n(l(0x51), l(0x52))),
        n(n(l(0x51), T::Leaf(vec![0x51], 0xc0)), n(T::Hidden([9; 32]), l(0x51))),
        n(T::Hidden([1; 32]), T::Hidden([2; 32])),
    ];
    for t in &fixed {
        let mut items = vec![];
        t.dfs(0, &mut items);
        one_listing(&cx, rng, out, &items, Some(t), true, true);
    }
    // empty builder, over-complete, incomplete, out of order
    one_listing(&cx, rng, out, &[], None, true, false);
    let lf = |d: usize, b: u8| (d, Item::Leaf(vec![b], 0xc4));
    for items in [
        vec![lf(0, 1), lf(0, 2)],
        vec![lf(0, 1), lf(1, 2)],
        vec![lf(1, 1), lf(1, 2), lf(1, 3)],
        vec![lf(1, 1)],
        vec![lf(2, 1), lf(2, 2), lf(2, 3)],
        vec![lf(2, 1), lf(1, 2)],
        vec![lf(3, 1), lf(1, 2)],
        vec![lf(2, 1), lf(2, 2), lf(2, 3), lf(2, 4), lf(0, 5)],
        vec![lf(129, 1)],
        vec![lf(128, 1), lf(128, 2)],
        vec![(1, Item::Leaf(vec![1], 0xc5))],
        vec![(1, Item::Leaf(vec![1], 0x50))],
        // the depth limit holds for hidden nodes as for leaves
        vec![(129, Item::Hidden([7u8; 32]))],
        vec![(130, Item::Hidden([7u8; 32]))],
        vec![(200, Item::Hidden([7u8; 32]))],
        vec![(128, Item::Hidden([7u8; 32])), (128, Item::Hidden([8u8; 32]))],
        vec![(129, Item::Hidden([7u8; 32])), (129, Item::Hidden([8u8; 32]))],
    ] {
        one_listing(&cx, rng, out, &items, None, true, false);
    }

    // depth limit: 128 accepted, 129 refused
    for (d, hidden) in [(128usize, false), (129, false), (128, true), (129, true), (127, false), (130, false)] {
        let t = chain(d, hidden, rng);
        let mut items = vec![];
        t.dfs(0, &mut items);
        out.count(&format!("chain.depth.{}", d));
        one_listing(&cx, rng, out, &items, Some(&t), true, d <= 128 && (th || d == 128 && !hidden));
    }

    // the same with BOTH deepest nodes hidden and script leaves only above them: 128 accepted, 129/130 refused
    for d in [127usize, 128, 129, 130] {
        let mut t = T::Node(Box::new(T::Hidden(gen::arr32(rng))), Box::new(T::Hidden(gen::arr32(rng))));
        for i in 1..d {
            let s = if i % 3 == 0 { T::Hidden(gen::arr32(rng)) } else { T::Leaf(vec![0x51, (i & 0xff) as u8], 0xc4) };
            t = if rng.gen_bool(0.5) { T::Node(Box::new(s), Box::new(t)) } else { T::Node(Box::new(t), Box::new(s)) };
        }
        let mut items = vec![];
        t.dfs(0, &mut items);
        out.count(&format!("chain.hidden_bottom.depth.{}", d));
        one_listing(&cx, rng, out, &items, Some(&t), true, false);
    }

    // random trees
    for i in 0..(60 * scale) {
        let mut pool = vec![];
        let leaves = if i % 10 == 9 { rng.gen_range(9..24) } else { rng.gen_range(1..9) };
        let hp = if i % 3 == 0 { 0.2 } else { 0.0 };
        let t = gen_tree(rng, leaves, hp, &mut pool);
        let mut items = vec![];
        t.dfs(0, &mut items);
        out.count(&format!("tree.leaves.{}", if leaves <= 8 { leaves.to_string() } else { "9+".into() }));
        one_listing(&cx, rng, out, &items, Some(&t), true, true);
        // mutated listings: change one depth, drop / duplicate / swap items
        let mut m = items.clone();
        if !m.is_empty() {
            let j = rng.gen_range(0..m.len());
            match rng.gen_range(0..4) {
                0 => m[j].0 = (m[j].0 + 1) % 6,
                1 => {
                    m.remove(j);
                }
                2 => {
                    let x = m[j].clone();
                    m.insert(j, x);
                }
                _ => {
                    let k = rng.gen_range(0..m.len());
                    m.swap(j, k);
                }
            }
            let acc = one_listing(&cx, rng, out, &m, None, true, false);
            let ds: Vec<usize> = m.iter().map(|x| x.0).collect();
            out.s("accepted_iff_dfs_depth_sequence", acc == valid_depths(&ds), || listing_str(&m));
        }
    }

    // every depth sequence (valid and invalid) of a given length
    let kmax = if th { 6 } else { 4 };
    let smax = if th { 7 } else { 5 };
    for nn in 1..=smax {
        all_depth_sequences(&cx, rng, out, nn, nn <= kmax, 0);
    }
    for nn in 1..=(if th { 5 } else { 3 }) {
        all_depth_sequences(&cx, rng, out, nn, true, 0b101010 >> (nn % 2));
    }

    // control block decoding: valid, mutated, random, boundary lengths
    {
        let t = chain(128, false, rng);
        let mut paths = vec![];
        t.paths(&[], &mut paths);
        let deepest = paths.iter().max_by_key(|p| p.2.len()).unwrap();
        let mut ser = vec![0xc4u8];
        ser.extend_from_slice(&cx.key.serialize());
        ser.extend(flat32(&deepest.2));
        cb_op(out, &ser); // m = 128
        let mut s129 = ser.clone();
        s129.extend_from_slice(&[3u8; 32]);
        cb_op(out, &s129); // m = 129
        out.s("cb_129_nodes_refused", ControlBlock::from_slice(&s129).is_err(), || "m=129".into());
        for cut in [0usize, 1, 32, 33, 34, 64, 65, 66, 97] {
            cb_op(out, &ser[..cut]);
        }
        for b0 in 0..=255u8 {
            let mut s = ser[..65].to_vec();
            s[0] = b0;
            cb_op(out, &s);
        }
    }
    for _ in 0..(150 * scale) {
        let m = match rng.gen_range(0..10) {
            0 => 0,
            1 => 128,
            2 => 129,
            _ => rng.gen_range(0..6),
        };
        let mut s = vec![if rng.gen_bool(0.8) { 0xc4 | rng.gen_range(0..2u8) } else { rng.gen() }];
        if rng.gen_bool(0.7) {
            s.extend_from_slice(&cx.key.serialize());
        } else if rng.gen_bool(0.5) {
            s.extend_from_slice(&XOnlyPublicKey::from_keypair(&Keypair::from_secret_key(&cx.secp, &gen::seckey(rng))).0.serialize());
        } else {
            s.extend_from_slice(&gen::arr32(rng)); // about half of these are not on the curve
        }
        s.extend(gen::bytes(rng, 32 * m));
        if rng.gen_bool(0.15) {
            let cut = rng.gen_range(0..s.len());
            s.truncate(cut);
        } else if rng.gen_bool(0.1) {
            let extra = rng.gen_range(1..32);
            s.extend(gen::bytes(rng, extra));
        }
        cb_op(out, &s);
    }
    // x-only keys at the field boundary
    for tail in [[0xffu8; 32], { let mut p = [0xffu8; 32]; p[27] = 0xfe; p[30] = 0xfc; p[31] = 0x2f; p }, { let mut p = [0xffu8; 32]; p[27] = 0xfe; p[30] = 0xfc; p[31] = 0x2e; p }, [0u8; 32]] {
        let mut s = vec![0xc4u8];
        s.extend_from_slice(&tail);
        cb_op(out, &s);
    }

    // Huffman
    let fixed_w: Vec<Vec<(u32, Vec<u8>)>> = vec![
        vec![],
        vec![(5, vec![0x51])],
        vec![(10, vec![0x51]), (20, vec![0x52]), (20, vec![0x53]), (30, vec![0x54]), (19, vec![0x55])],
        vec![(0, vec![0x51]), (0, vec![0x52]), (0, vec![0x53])],
        vec![(u32::MAX, vec![0x51]), (u32::MAX, vec![0x52]), (u32::MAX, vec![0x53]), (1, vec![0x54])],
        vec![(1, vec![0x51]), (1, vec![0x51])],
        vec![(1, vec![0x51]), (2, vec![0x51]), (3, vec![0x52])],
    ];
    for ws in &fixed_w {
        huffman_case(&cx, rng, out, ws, true, true);
    }
    for i in 0..(80 * scale) {
        let nn = if i % 10 == 9 { rng.gen_range(9..40) } else { rng.gen_range(1..9) };
        let dup = i % 7 == 6;
        let ws: Vec<(u32, Vec<u8>)> = (0..nn)
            .map(|j| {
                let w = match rng.gen_range(0..6) {
                    0 => 0,
                    1 => u32::MAX,
                    2 => rng.gen_range(0..4),
                    3 => gen::u32_edge(rng),
                    _ => rng.gen_range(0..1000),
                };
                let s = if dup && j > 0 && rng.gen_bool(0.3) { vec![0x51, 0] } else { vec![0x51, j as u8] };
                (w, s)
            })
            .collect();
        huffman_case(&cx, rng, out, &ws, true, i % 4 == 0);
    }
    // Fibonacci-like weights give the deepest trees reachable with u32 weights
    {
        let mut ws = vec![];
        let (mut a, mut b) = (1u64, 1u64);
        let mut j = 0u8;
        while a <= u32::MAX as u64 {
            ws.push((a as u32, vec![0x51, j]));
            let c = a + b;
            a = b;
            b = c;
            j += 1;
        }
        huffman_case(&cx, rng, out, &ws, true, true);
    }
    // Weight ties are broken on the node hash, so with all-zero weights the shape is decided by the
    // hashes alone: pick scripts so that every merge joins the running subtree with one new leaf
    // (a caterpillar). With n leaves the two first leaves sit at depth n-1: depth 128 must be accepted,
    // depth 129 refused (the Huffman path reaches the 128-node limit only through the merkle-branch push).
    for n in [5usize, 128, 129, 130] {
        huffman_caterpillar(&cx, out, n);
    }
    let dom = [0u32, 1, 2, 3, u32::MAX];
    for nn in 1..=(if th { 7 } else { 5 }) {
        all_weight_vectors(&cx, rng, out, nn, &dom);
    }
}

/// branch hash of the real code, observed through `NodeInfo::combine` of two hidden nodes
struct NodeInfoProbe;
impl NodeInfoProbe {
    fn combine_hash(cx: &Ctx, a: &[u8; 32], b: &[u8; 32]) -> [u8; 32] {
        let bld = TaprootBuilder::new()
            .add_hidden(1, TapNodeHash::from_byte_array(*a))
            .and_then(|x| x.add_hidden(1, TapNodeHash::from_byte_array(*b)))
            .expect("two hidden nodes");
        bld.finalize(&cx.secp, cx.key).expect("complete").merkle_root().expect("root").to_byte_array()
    }
}
