//! C16 (model growth) — opcode classification / names, script text forms (asm, Debug, Display, hex),
//! script-number boundaries, the hashing constructors.  Included from c16.rs (`mod asm`), run at the end of
//! `c16::run` so the random stream of the older checks is unchanged.
use super::{apply, expected, gen_ops, gen_script_bytes, int_edge, iterate, min_header, ops_have_min, ops_have_pushclass_opcode, op_line, BOp, Ins};
use crate::{gen, hex, Out, Rng, R};
use elements::bitcoin::hashes::{hash160, sha256, Hash as BHash};
use elements::opcodes::{All, Class, ClassifyContext, Ordinary};
use elements::script::{self, Builder, Script};
use elements::{Address, AddressParams};
use std::collections::HashMap;

fn hexraw(b: &[u8]) -> String {
    b.iter().map(|x| format!("{:02x}", x)).collect()
}

fn class_str(c: Class) -> String {
    match c {
        Class::PushNum(n) => format!("pushnum:{}", n),
        Class::PushBytes(n) => format!("pushbytes:{}", n),
        Class::ReturnOp => "return".into(),
        Class::SuccessOp => "success".into(),
        Class::IllegalOp => "illegal".into(),
        Class::NoOp => "noop".into(),
        Class::Ordinary(o) => format!("ordinary:{}", o.into_u8()),
    }
}

fn classify_guarded(b: u8, ctx: ClassifyContext) -> String {
    Out::guard(|| class_str(All::from(b).classify(ctx)))
}


fn opcodes_all(out: &mut Out) -> HashMap<String, u8> {
    let mut names: HashMap<String, u8> = HashMap::new();
    let mut distinct = true;
    for b in 0..=255u8 {
        let op = All::from(b);
        let name = format!("{}", op);
        let l = classify_guarded(b, ClassifyContext::Legacy);
        let t = classify_guarded(b, ClassifyContext::TapScript);
        let tr = Out::guard(|| match Ordinary::try_from_all(op) { Some(o) => format!("{}", o.into_u8()), None => "none".into() });
        out.k(format!("opinfo {}", b), format!("ok {} {} {} {}", name, l, t, tr));
        out.count(&format!("opclass.legacy.{}", l.split(':').next().unwrap()));
        out.count(&format!("opclass.tapscript.{}", t.split(':').next().unwrap()));
        // Display forwards to Debug; the byte survives From<u8> / into_u8
        out.s("opcode_display_is_debug", name == format!("{:?}", op) && op.into_u8() == b, || format!("{:02x}", b));
        // the iterator and fmt_asm call classify(Legacy) on every opcode byte: it must not panic
        out.s("classify_legacy_total", l != "panic", || format!("All::from(0x{:02x}).classify(ClassifyContext::Legacy) panics", b));
        // OBSERVATION (outside C16 and C10: `classify` is not a fallible API and no property covers the TapScript
        // context): `classify(TapScript)` panics for 35 opcodes (0xba, 0xc0, 0xc4..=0xe4) that no arm claims and
        // that are missing from `ordinary_opcode!`. The model carries the panic (`classify_tapscript_panics_iff`),
        // the K line above compares it byte for byte; counted, not judged.
        if t == "panic" {
            out.count("observation.classify_tapscript_panics");
        }
        // Ordinary <-> All: the discriminant is the opcode byte, and a class Ordinary(o) names the opcode itself
        let ord_ok = tr == "none" || tr == format!("{}", b);
        out.s("ordinary_into_u8_roundtrip", ord_ok, || format!("{:02x} -> {}", b, tr));
        for c in [&l, &t] {
            if let Some(o) = c.strip_prefix("ordinary:") {
                out.s("class_ordinary_is_the_opcode", o == format!("{}", b) && tr == o, || format!("{:02x} -> {}", b, c));
            }
        }
        // push-bytes class exactly for the direct pushes, with the byte as the length (what the iterator relies on)
        out.s("pushbytes_class_iff_direct_push", (l == format!("pushbytes:{}", b)) == (b <= 0x4b) && (l.starts_with("pushbytes")) == (b <= 0x4b), || format!("{:02x} -> {}", b, l));
        if names.insert(name.clone(), b).is_some() {
            distinct = false;
        }
    }
    out.s("opcode_names_pairwise_distinct", distinct && names.len() == 256 && !names.contains_key("OP_0"), || "two opcodes share a Display name".into());
    names
}

/// independent reader of the asm text of a cleanly decoding script: tokens back to bytes
fn reparse(asm: &str, names: &HashMap<String, u8>) -> Option<Vec<u8>> {
    let t = asm.strip_prefix(' ').unwrap_or(asm);
    let mut outb = vec![];
    if t.is_empty() {
        return Some(outb);
    }
    let toks: Vec<&str> = t.split(' ').collect();
    let mut i = 0;
    while i < toks.len() {
        let b = if toks[i] == "OP_0" { 0 } else { *names.get(toks[i])? };
        i += 1;
        let data = if i < toks.len() && !toks[i].starts_with("OP_") {
            let h = toks[i];
            if h.is_empty() || h.len() % 2 != 0 || !h.bytes().all(|c| c.is_ascii_digit() || (b'a'..=b'f').contains(&c)) {
                return None;
            }
            i += 1;
            crate::unhex(h)
        } else {
            vec![]
        };
        outb.push(b);
        let n = data.len();
        match b {
            0..=0x4b => { if n != b as usize { return None; } }
            0x4c => { if n > 0xff { return None; } outb.push(n as u8); }
            0x4d => { if n > 0xffff { return None; } outb.extend([(n & 0xff) as u8, (n >> 8) as u8]); }
            0x4e => { if n > 0xffff_ffff { return None; } outb.extend([(n & 0xff) as u8, ((n >> 8) & 0xff) as u8, ((n >> 16) & 0xff) as u8, (n >> 24) as u8]); }
            _ => { if n != 0 { return None; } }
        }
        outb.extend(data);
    }
    Some(outb)
}

struct Seen {
    clean: HashMap<String, Vec<u8>>,
}

fn one_asm(out: &mut Out, names: &HashMap<String, u8>, seen: &mut Seen, b: &[u8]) {
    let s = Script::from(b.to_vec());
    let res = Out::guard(|| format!("ok [{}] [{:?}] x{:x} X{:X}", s.asm(), s, s, s));
    out.k(format!("asm {}", hex(b)), res.clone());
    if res == "panic" {
        out.s("asm_does_not_panic", false, || hex(b));
        return;
    }
    out.s("asm_does_not_panic", true, || String::new());
    let a = s.asm();
    let mut buf = String::new();
    let fmt_ok = s.fmt_asm(&mut buf).is_ok() && buf == a;
    out.s("text_forms_agree",
        fmt_ok && format!("{}", s) == format!("{:?}", s) && format!("{:?}", s) == format!("Script({})", a)
            && format!("{:x}", s) == hexraw(b) && format!("{:X}", s) == hexraw(b).to_uppercase(),
        || hex(b));
    let (_, errs, _) = iterate(&s, false);
    let clean = errs.is_empty();
    // an error marker is printed exactly when the instruction stream has an error
    out.s("asm_marker_iff_decode_error", a.contains('<') == !clean, || format!("{} -> {:?}", hex(b), a));
    if clean {
        out.count("asm.clean");
        if a.starts_with(' ') { out.count("asm.clean.leading-space"); }
        // the text determines the bytes: an independent reader gets the script back …
        let back = reparse(&a, names);
        out.s("asm_reparse_identity", back.as_deref() == Some(b), || format!("{} -> {:?} -> {:?}", hex(b), a, back.as_ref().map(|x| hex(x))));
        // … and no two different cleanly decoding scripts of this run share a text
        let prev = seen.clean.entry(a.clone()).or_insert_with(|| b.to_vec());
        out.s("asm_injective_on_clean_scripts", &prev[..] == b, || format!("{} and {} both print {:?}", hex(prev), hex(b), a));
    } else {
        out.count("asm.error");
        for m in ["<unexpected end>", "<push past end>", "<bad length>"] {
            if a.ends_with(m) { out.count(&format!("asm.error.{}", &m[1..m.len() - 1].replace(' ', "-"))); }
        }
    }
}

fn op_text(c: u8) -> String {
    if c == 0 { "OP_0".to_string() } else { format!("{}", All::from(c)) }
}

/// asm of a builder-built script from the instruction list "that was added": one item per instruction
fn one_asm_build(out: &mut Out, names: &HashMap<String, u8>, seen: &mut Seen, ops: &[BOp]) {
    if ops_have_min(ops) || ops_have_pushclass_opcode(ops) {
        return;
    }
    let s = apply(ops);
    one_asm(out, names, seen, s.as_bytes());
    let exp = expected(ops);
    let items: Vec<String> = exp.iter().map(|i| match i {
        Ins::P(d) => {
            let h = min_header(d.len());
            if d.is_empty() { op_text(h[0]) } else { format!("{} {}", op_text(h[0]), hexraw(d)) }
        }
        Ins::O(c) => op_text(*c),
    }).collect();
    let lead = matches!(exp.first(), Some(Ins::P(d)) if d.len() >= 76);
    let want = format!("{}{}", if lead { " " } else { "" }, items.join(" "));
    out.s("asm_of_built_script_is_its_items", s.asm() == want, || op_line(ops).chars().take(300).collect());
    if !ops.iter().any(|o| *o == BOp::Verify) {
        out.count("asmbuild.no-verify");
        out.s("asm_one_item_per_builder_call", items.len() == ops.len(), || op_line(ops).chars().take(300).collect());
    } else {
        out.count("asmbuild.with-verify");
    }
}

fn is_minimal_num(v: &[u8]) -> bool {
    match v.len() {
        0 => true,
        1 => v[0] & 0x7f != 0,
        n => v[n - 1] & 0x7f != 0 || v[n - 2] & 0x80 != 0,
    }
}

fn push_data_of(s: &Script) -> Option<Vec<u8>> {
    let (items, errs, _) = iterate(s, false);
    if !errs.is_empty() || items.len() != 1 { return None; }
    match &items[0] { Ins::P(d) => Some(d.clone()), _ => None }
}

fn one_scriptnum(out: &mut Out, i: i64) {
    let res = Out::guard(|| {
        let a = Builder::new().push_scriptint(i).into_script();
        let b = Builder::new().push_int(i).into_script();
        let d = push_data_of(&a).expect("single push");
        let r = match script::read_scriptint(&d) { Ok(x) => format!("ok {}", x), Err(_) => "err".to_string() };
        format!("ok {} {} {}", hex(a.as_bytes()), hex(b.as_bytes()), r)
    });
    out.k(format!("scriptnum {}", i), res);
    if i == i64::MIN {
        out.count("scriptnum.i64min");
        return;
    }
    let a = Builder::new().push_scriptint(i).into_script();
    if let Some(d) = push_data_of(&a) {
        out.s("build_scriptint_minimal", is_minimal_num(&d), || format!("{} -> {}", i, hex(&d)));
        out.count(&format!("scriptnum.len{}", d.len()));
    } else {
        out.s("build_scriptint_minimal", false, || format!("{}: not a single push", i));
    }
}

fn one_scriptint_rt(out: &mut Out, v: &[u8]) {
    let res = Out::guard(|| match script::read_scriptint(v) {
        Ok(i) => {
            let a = Builder::new().push_scriptint(i).into_script();
            format!("ok {} {}", i, hex(&push_data_of(&a).expect("single push")))
        }
        Err(_) => "err".to_string(),
    });
    out.k(format!("scriptintrt {}", hex(v)), res);
    match script::read_scriptint(v) {
        Ok(i) => {
            let back = push_data_of(&Builder::new().push_scriptint(i).into_script());
            let min = is_minimal_num(v);
            out.count(if min { "scriptintrt.minimal" } else { "scriptintrt.nonminimal-accepted" });
            // read then build returns the bytes exactly for minimal encodings; non-minimal ones are accepted, not rejected
            out.s("read_then_build_identity_iff_minimal", (back.as_deref() == Some(v)) == min, || hex(v));
        }
        Err(e) => {
            out.count("scriptintrt.err");
            out.s("read_scriptint_rejects_only_overlong", v.len() > 4 && e == script::Error::NumericOverflow, || hex(v));
        }
    }
}

fn one_hashing(out: &mut Out, b: &[u8]) {
    let s = Script::from(b.to_vec());
    let res = Out::guard(|| {
        format!("ok {} {} {} {}", hex(s.script_hash().as_byte_array()), hex(s.wscript_hash().as_byte_array()),
            hex(s.to_p2sh().as_bytes()), hex(s.to_v0_p2wsh().as_bytes()))
    });
    out.k(format!("scripthash {}", hex(b)), res);
    let p = s.to_p2sh();
    let w = s.to_v0_p2wsh();
    out.s("script_hash_is_hash160", s.script_hash().as_byte_array() == hash160::Hash::hash(b).as_byte_array()
        && s.wscript_hash().as_byte_array() == sha256::Hash::hash(b).as_byte_array(), || hex(b));
    out.s("to_p2sh_is_p2sh", p.is_p2sh() && p == Script::new_p2sh(&s.script_hash()) && p.len() == 23 && p.as_bytes()[2..22] == s.script_hash().as_byte_array()[..], || hex(b));
    out.s("to_v0_p2wsh_is_v0_p2wsh", w.is_v0_p2wsh() && w.is_witness_program() && w == Script::new_v0_wsh(&s.wscript_hash()) && w.as_bytes()[2..] == s.wscript_hash().as_byte_array()[..], || hex(b));
    let ap = Address::from_script(&p, None, &AddressParams::ELEMENTS);
    let aw = Address::from_script(&w, None, &AddressParams::ELEMENTS);
    out.s("hashed_scripts_have_addresses",
        ap.as_ref().map(|a| a.script_pubkey()) == Some(p.clone()) && aw.as_ref().map(|a| a.script_pubkey()) == Some(w.clone()), || hex(b));
}

fn one_opreturn(out: &mut Out, d: &[u8]) {
    let res = Out::guard(|| {
        let s = Script::new_op_return(d);
        format!("ok {} [{}]", hex(s.as_bytes()), s.asm())
    });
    out.k(format!("newopret {}", hex(d)), res);
    let s = Script::new_op_return(d);
    let (items, errs, _) = iterate(&s, false);
    out.s("new_op_return_is_op_return", s.is_op_return() && s.is_provably_unspendable() && errs.is_empty()
        && items == vec![Ins::O(0x6a), Ins::P(d.to_vec())], || hex(d));
}

fn one_builderfrom(out: &mut Out, b: &[u8]) {
    let res = Out::guard(|| format!("ok {}", hex(Builder::from(b.to_vec()).push_verify().into_script().as_bytes())));
    out.k(format!("builderfrom {}", hex(b)), res);
}

fn pushdata(op: u8, n: usize, have: usize, fill: u8) -> Vec<u8> {
    let mut v = match op {
        0x4c => vec![0x4c, n as u8],
        0x4d => vec![0x4d, (n & 0xff) as u8, (n >> 8) as u8],
        _ => vec![0x4e, (n & 0xff) as u8, ((n >> 8) & 0xff) as u8, ((n >> 16) & 0xff) as u8, (n >> 24) as u8],
    };
    v.extend(vec![fill; have]);
    v
}

pub fn run(rng: &mut R, out: &mut Out) {
    let thorough = out.tier_thorough;
    let scale = if thorough { 20 } else { 1 };
    let mut seen = Seen { clean: HashMap::new() };

    // ---- all 256 opcodes: name, class in both contexts, Ordinary
    let names = opcodes_all(out);

    // ---- asm: hand-picked shapes
    one_asm(out, &names, &mut seen, &[]);
    for b in 0..=255u8 {
        one_asm(out, &names, &mut seen, &[b]);
        one_asm(out, &names, &mut seen, &[0x51, b]);
        one_asm(out, &names, &mut seen, &[b, 0x00]);
        one_asm(out, &names, &mut seen, &[b, 0x01, 0xab]);
        if thorough {
            one_asm(out, &names, &mut seen, &[b, 0x02, 0x00, 0xab, 0xcd, 0x87]);
            one_asm(out, &names, &mut seen, &[0x4c, 0x01, b, b]);
        }
    }
    // every PUSHDATA width: missing / partial length field, zero length, exact, one short, one extra, non-minimal
    for op in [0x4cu8, 0x4d, 0x4e] {
        let w = match op { 0x4c => 1, 0x4d => 2, _ => 4 };
        for k in 0..w {
            let mut v = vec![op];
            v.extend(vec![0x01u8; k]);
            one_asm(out, &names, &mut seen, &v);
            let mut v2 = vec![0x76];
            v2.extend(&v);
            one_asm(out, &names, &mut seen, &v2);
        }
        for n in [0usize, 1, 2, 75, 76, 77, 255] {
            for (have, tail) in [(n, false), (n, true), (n.saturating_sub(1), false), (n + 1, false)] {
                let mut v = pushdata(op, n, have, 0xa5);
                if tail { v.push(0xac); }
                one_asm(out, &names, &mut seen, &v);
                let mut v2 = vec![0x00];
                v2.extend(&v);
                one_asm(out, &names, &mut seen, &v2);
            }
        }
    }
    for n in [256usize, 257, 520, 65535] {
        for have in [n, n - 1] {
            one_asm(out, &names, &mut seen, &pushdata(0x4d, n, have, 0x3c));
            one_asm(out, &names, &mut seen, &pushdata(0x4e, n, have, 0x3c));
        }
    }
    one_asm(out, &names, &mut seen, &pushdata(0x4e, 65536, 65536, 0x11));
    one_asm(out, &names, &mut seen, &pushdata(0x4e, 0xffff_ffff, 3, 0x11));
    one_asm(out, &names, &mut seen, &pushdata(0x4e, 0x0100_0000, 3, 0x11));
    // direct pushes: every length, exact and one short
    for n in 1..=75usize {
        let mut v = vec![n as u8];
        v.extend((0..n).map(|i| (i * 7 + n) as u8));
        one_asm(out, &names, &mut seen, &v);
        v.pop();
        one_asm(out, &names, &mut seen, &v);
    }
    // data that looks like text: the hex of "OP_DUP", spaces, '<'
    one_asm(out, &names, &mut seen, &[0x06, b'O', b'P', b'_', b'D', b'U', b'P']);
    one_asm(out, &names, &mut seen, &[0x02, b' ', b'<', 0x76]);
    // the templates
    let h20: Vec<u8> = (1..=20).collect();
    let h32: Vec<u8> = (1..=32).collect();
    for t in [
        [&[0x76u8, 0xa9, 0x14][..], &h20, &[0x88, 0xac]].concat(),
        [&[0xa9u8, 0x14][..], &h20, &[0x87]].concat(),
        [&[0x00u8, 0x14][..], &h20].concat(),
        [&[0x00u8, 0x20][..], &h32].concat(),
        [&[0x51u8, 0x20][..], &h32].concat(),
    ] {
        for cut in 0..=t.len() {
            one_asm(out, &names, &mut seen, &t[..cut]);
        }
    }

    // ---- asm: generated
    for _ in 0..250 * scale {
        let b = gen_script_bytes(rng);
        one_asm(out, &names, &mut seen, &b);
    }
    for _ in 0..120 * scale {
        // opcode soup with occasional pushes: every name shows up
        let n = rng.gen_range(1..24);
        let mut v = vec![];
        for _ in 0..n {
            match rng.gen_range(0..8) {
                0 => { let l = rng.gen_range(0..6usize); v.push(l as u8); v.extend(gen::bytes(rng, l)); }
                1 => { let l = rng.gen_range(0..4usize); v.extend(pushdata([0x4cu8, 0x4d, 0x4e][rng.gen_range(0..3)], l, l, rng.gen())); }
                _ => v.push(rng.gen_range(0x4f..=0xffu8)),
            }
        }
        one_asm(out, &names, &mut seen, &v);
        if rng.gen_bool(0.3) {
            let cut = rng.gen_range(0..=v.len());
            one_asm(out, &names, &mut seen, &v[..cut]);
        }
    }
    for _ in 0..200 * scale {
        let big = thorough && rng.gen_bool(0.01);
        let ops = gen_ops(rng, big);
        if ops_have_min(&ops) || ops_have_pushclass_opcode(&ops) { continue; }
        one_asm_build(out, &names, &mut seen, &ops);
        // every truncation of a short built script
        let b = apply(&ops).to_bytes();
        if b.len() <= 40 && rng.gen_bool(0.25) {
            for cut in 0..b.len() {
                one_asm(out, &names, &mut seen, &b[..cut]);
            }
        }
    }
    for n in [0usize, 1, 75, 76, 255, 256, 300] {
        one_asm_build(out, &names, &mut seen, &[BOp::Fill(n, 0xee)]);
        one_asm_build(out, &names, &mut seen, &[BOp::Opcode(0xac), BOp::Fill(n, 0xee), BOp::Opcode(0x87), BOp::Verify]);
        one_asm_build(out, &names, &mut seen, &[BOp::Fill(n, 0xee), BOp::Int(0), BOp::Int(-1), BOp::Int(16), BOp::Int(17)]);
    }

    // ---- script numbers at the boundaries
    let mut ints: Vec<i64> = vec![0, 1, -1, 16, 17, -16, -17, 127, -127, 128, -128, 129, -129, 255, -255, 256, -256, 32767, -32767, 32768, -32768,
        8388607, -8388607, 8388608, -8388608, 2147483647, -2147483647, 2147483648, -2147483648, 4294967295, -4294967295, 4294967296,
        i64::MAX, i64::MAX - 1, i64::MIN + 1, i64::MIN + 2, i64::MIN];
    for k in 0..63u32 {
        for d in [-1i64, 0, 1] {
            ints.push((1i64 << k) + d);
            ints.push(-((1i64 << k) + d));
        }
    }
    for i in ints {
        one_scriptnum(out, i);
    }
    for _ in 0..100 * scale {
        one_scriptnum(out, int_edge(rng));
    }
    // read_scriptint on every 0-, 1- and (sampled) 2-byte string, sign/zero paddings of every length, over-long
    one_scriptint_rt(out, &[]);
    for b in 0..=255u8 {
        one_scriptint_rt(out, &[b]);
        if thorough || b % 16 == 0 || b >= 0x7e && b <= 0x82 || b == 0xff || b == 1 {
            for l in [0x00u8, 0x80, 0x01, 0x7f, 0x81, 0xff] {
                one_scriptint_rt(out, &[b, l]);
                one_scriptint_rt(out, &[0x00, b, l]);
                one_scriptint_rt(out, &[0xff, 0x01, b, l]);
                one_scriptint_rt(out, &[0xff, 0x01, 0x00, b, l]);
            }
        }
    }
    for n in 1..=6usize {
        for l in [0x00u8, 0x80] {
            let mut v = vec![0u8; n - 1];
            v.push(l);
            one_scriptint_rt(out, &v);
            let mut v = vec![0xffu8; n - 1];
            v.push(l);
            one_scriptint_rt(out, &v);
        }
    }
    for _ in 0..150 * scale {
        let n = rng.gen_range(0..7);
        let mut v = gen::bytes(rng, n);
        if n > 0 && rng.gen_bool(0.5) { v[n - 1] = [0x00, 0x80, 0x7f, 0xff, 0x01, 0x81][rng.gen_range(0..6)]; }
        if n > 1 && rng.gen_bool(0.3) { v[n - 2] = [0x00, 0x80, 0x7f, 0xff][rng.gen_range(0..4)]; }
        one_scriptint_rt(out, &v);
    }

    // ---- hashing constructors, OP_RETURN scripts, Builder::from
    for b in [vec![], vec![0x00], vec![0x51], vec![0x6a], h20.clone(), vec![0xac; 55], vec![0xac; 56], vec![0xac; 64], vec![0xac; 119], vec![0xac; 120]] {
        one_hashing(out, &b);
    }
    for _ in 0..25 * scale {
        let b = gen_script_bytes(rng);
        one_hashing(out, &b);
    }
    for n in [0usize, 1, 2, 20, 40, 75, 76, 80, 255, 256, 65535, 65536] {
        one_opreturn(out, &vec![0x42u8; n]);
    }
    for b in [0x00u8, 0x01, 0x10, 0x11, 0x4f, 0x6a, 0x81, 0xff] {
        one_opreturn(out, &[b]);
    }
    for _ in 0..30 * scale {
        let n = rng.gen_range(0..90);
        one_opreturn(out, &gen::bytes(rng, n));
    }
    for b in [vec![], vec![0x87], vec![0x01, 0x87], vec![0x4c], vec![0x87, 0x4c], vec![0x00], vec![0x51], vec![0xac, 0x00], vec![0xac, 0x01], vec![0x02, 0xac, 0xac], vec![0xc1], vec![0x9c], vec![0xae], vec![0xac]] {
        one_builderfrom(out, &b);
    }
    for _ in 0..80 * scale {
        let b = gen_script_bytes(rng);
        one_builderfrom(out, &b);
    }
}
