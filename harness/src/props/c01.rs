//! C01 — consensus encoding is an exact bijection on canonical values
use crate::{gen, hex, Out, Rng, R};
use elements::confidential::{Asset, Nonce, Value};
use elements::dynafed::Params;
use elements::encode::{deserialize, deserialize_partial, serialize, Decodable, Encodable};
use elements::{AssetIssuance, Block, BlockHeader, LockTime, OutPoint, Script, Transaction, TxIn, TxInWitness, TxOut, TxOutWitness};
use std::fmt::Debug;

pub fn cfg_line(out: &mut Out) {
    out.k(
        format!("cfg {} {} {}", std::mem::size_of::<TxIn>(), std::mem::size_of::<TxOut>(), std::mem::size_of::<Transaction>()),
        "ok".into(),
    );
}

/// a writer that counts what is written, to compare with the `usize` the encoder returns
/// a writer that accepts at most 7 bytes per `write` call (what files, sockets and pipes may do): an encoder must
/// still deliver every byte and report the true length
struct ChunkW(Vec<u8>);
impl std::io::Write for ChunkW {
    fn write(&mut self, b: &[u8]) -> std::io::Result<usize> {
        let n = b.len().min(7);
        self.0.extend_from_slice(&b[..n]);
        Ok(n)
    }
    fn flush(&mut self) -> std::io::Result<()> {
        Ok(())
    }
}
struct CountW(usize);
impl std::io::Write for CountW {
    fn write(&mut self, b: &[u8]) -> std::io::Result<usize> {
        self.0 += b.len();
        Ok(b.len())
    }
    fn flush(&mut self) -> std::io::Result<()> {
        Ok(())
    }
}

pub trait Ty: Decodable + Encodable + PartialEq + Debug + Sized {
    const NAME: &'static str;
    fn extra(&self) -> String { String::new() }
}
impl Ty for Transaction { const NAME: &'static str = "tx"; fn extra(&self) -> String { format!(" {} {} {}", self.input.len(), self.output.len(), self.has_witness()) } }
impl Ty for TxIn { const NAME: &'static str = "txin"; fn extra(&self) -> String { format!(" {} {} {}", self.is_pegin, self.has_issuance(), self.previous_output.vout) } }
impl Ty for TxOut { const NAME: &'static str = "txout"; }
impl Ty for TxInWitness { const NAME: &'static str = "txinwit"; fn extra(&self) -> String { format!(" {}", self.is_empty()) } }
impl Ty for TxOutWitness { const NAME: &'static str = "txoutwit"; fn extra(&self) -> String { format!(" {}", self.is_empty()) } }
impl Ty for Asset { const NAME: &'static str = "asset"; }
impl Ty for Value { const NAME: &'static str = "value"; }
impl Ty for Nonce { const NAME: &'static str = "nonce"; }
impl Ty for AssetIssuance { const NAME: &'static str = "issuance"; fn extra(&self) -> String { format!(" {}", self.is_null()) } }
impl Ty for OutPoint { const NAME: &'static str = "outpoint"; fn extra(&self) -> String { format!(" {}", self.vout) } }
impl Ty for Script { const NAME: &'static str = "script"; }
impl Ty for LockTime { const NAME: &'static str = "locktime"; fn extra(&self) -> String { format!(" {} {}", self.to_consensus_u32(), if self.is_block_height() { "height" } else { "time" }) } }
impl Ty for Params { const NAME: &'static str = "params"; }
impl Ty for BlockHeader { const NAME: &'static str = "header"; fn extra(&self) -> String { format!(" {} {}", self.version, self.is_dynafed()) } }
impl Ty for Block { const NAME: &'static str = "block"; fn extra(&self) -> String { format!(" {}", self.txdata.len()) } }

/// K op + S checks for a byte string fed to the decoder of `T`
pub fn on_bytes<T: Ty>(out: &mut Out, b: &[u8], stream: &str) {
    let res = Out::guard(|| match deserialize_partial::<T>(b) {
        Ok((v, n)) => format!("ok {} {}{}", n, hex(&serialize(&v)), v.extra()),
        Err(_) => "err".into(),
    });
    out.k(format!("dec {} {}", T::NAME, hex(b)), res.clone());
    out.count(&format!("{}.{}.{}", T::NAME, stream, if res.starts_with("ok") { "ok" } else if res == "err" { "err" } else { "panic" }));
    out.s("decoder_never_panics", res != "panic", || format!("{} {}", T::NAME, hex(b)));
    // the property on the real code
    let r = std::panic::catch_unwind(|| deserialize_partial::<T>(b));
    if let Ok(Ok((v, n))) = r {
        let re = serialize(&v);
        out.s("accepted_bytes_reencode_identically", n <= b.len() && re[..] == b[..n], || format!("{} in={} consumed={} reenc={}", T::NAME, hex(b), n, hex(&re)));
        let full = deserialize::<T>(b);
        out.s("deserialize_ok_iff_all_consumed", full.is_ok() == (n == b.len()), || format!("{} in={} consumed={}", T::NAME, hex(b), n));
        // decoded value is canonical: round-trips
        let back = deserialize::<T>(&re);
        out.s("decoded_value_roundtrips", matches!(&back, Ok(v2) if *v2 == v), || format!("{} in={}", T::NAME, hex(b)));
        let mut w = CountW(0);
        let ret = v.consensus_encode(&mut w).unwrap();
        out.s("encoder_reports_length", ret == w.0 && ret == re.len(), || format!("{} in={} ret={} written={}", T::NAME, hex(b), ret, w.0));
    }
}

/// a canonical in-memory value: encode → decode must give it back
pub fn on_value<T: Ty>(out: &mut Out, v: &T, rng: &mut R, mutations: usize) {
    let b = serialize(v);
    let mut w = CountW(0);
    let ret = v.consensus_encode(&mut w).unwrap();
    out.s("encoder_reports_length", ret == w.0 && ret == b.len(), || format!("{} {:?}", T::NAME, v));
    if b.len() <= 100_000 {
        let mut cw = ChunkW(Vec::new());
        let r = v.consensus_encode(&mut cw);
        out.s("encoder_reports_length", matches!(r, Ok(n) if n == cw.0.len()) && cw.0 == b, || format!("{} through a writer taking 7 bytes per call: reported {:?}, written {} of {} bytes, equal to serialize(): {}", T::NAME, r.as_ref().ok(), cw.0.len(), b.len(), cw.0 == b));
        // and into a buffer that is too small: an error, not a truncated success
        if b.len() >= 2 {
            let mut small = vec![0u8; b.len() - 1];
            let cap = small.len();
            let mut sl: &mut [u8] = &mut small[..];
            let r = v.consensus_encode(&mut sl);
            let written = cap - sl.len();
            out.s("encoder_reports_length", match &r { Err(_) => true, Ok(n) => *n == written }, || format!("{} into a buffer of {} bytes for a {}-byte encoding: reported {:?}, written {}", T::NAME, cap, b.len(), r.as_ref().ok(), written));
        }
    }
    let back = std::panic::catch_unwind(|| deserialize::<T>(&b));
    out.s("value_roundtrips", matches!(&back, Ok(Ok(v2)) if v2 == v), || format!("{} bytes={} value={:?}", T::NAME, hex(&b), v));
    on_bytes::<T>(out, &b, "valid");
    // extension: trailing bytes must not be consumed
    let mut ext = b.clone();
    ext.extend_from_slice(&gen::bytes(rng, 3));
    on_bytes::<T>(out, &ext, "extended");
    for _ in 0..mutations {
        let m = gen::mutate(rng, &b);
        on_bytes::<T>(out, &m, "mutated");
    }
}

/// Systematic neighbourhood of one valid encoding, direct checks only (no K lines: too many): every proper prefix
/// must be refused (a decoder that tolerates a short read would accept some), and every value of every byte at the
/// first 12 positions (version, the witness-flag byte of a transaction, the first counts / prefixes) plus 4 random
/// positions must either be refused or decode to a value that re-encodes to exactly the bytes consumed.
pub fn sweep<T: Ty>(out: &mut Out, v: &T, rng: &mut R) {
    let b = serialize(v);
    if b.len() > 4096 {
        return;
    }
    out.count(&format!("sweep.{}", T::NAME));
    let step = if b.len() > 400 { b.len() / 200 } else { 1 };
    let mut n = 0;
    while n < b.len() {
        let r = std::panic::catch_unwind(|| deserialize::<T>(&b[..n]));
        out.s("no_panic_on_decode", r.is_ok(), || format!("{} prefix {} of {}", T::NAME, n, hex(&b)));
        if let Ok(r) = r {
            out.s("proper_prefix_refused", r.is_err(), || format!("{} accepted the first {} bytes of its {}-byte encoding {}", T::NAME, n, b.len(), hex(&b)));
        }
        n += step;
    }
    let mut positions: Vec<usize> = (0..b.len().min(12)).collect();
    for _ in 0..4 { if !b.is_empty() { positions.push(rng.gen_range(0..b.len())); } }
    for i in positions {
        for x in 0u16..256 {
            if b[i] == x as u8 { continue; }
            let mut m = b.clone();
            m[i] = x as u8;
            let r = std::panic::catch_unwind(|| elements::encode::deserialize_partial::<T>(&m));
            out.s("no_panic_on_decode", r.is_ok(), || format!("{} byte {} := {:02x} in {}", T::NAME, i, x, hex(&b)));
            if let Ok(Ok((val, used))) = r {
                let re = serialize(&val);
                out.s("accepted_bytes_reencode_identically", used <= m.len() && re[..] == m[..used], || format!("{} byte {} := {:02x} in {} : consumed={} reenc={}", T::NAME, i, x, hex(&b), used, hex(&re)));
            }
        }
    }
}

/// hex literals that appear in the repository's own tests and data files
pub fn harvest_hex() -> Vec<Vec<u8>> {
    let mut res = vec![];
    let mut files = vec![];
    fn walk(d: &std::path::Path, files: &mut Vec<std::path::PathBuf>) {
        if let Ok(rd) = std::fs::read_dir(d) {
            let mut es: Vec<_> = rd.flatten().map(|e| e.path()).collect();
            es.sort();
            for p in es {
                if p.is_dir() { walk(&p, files); } else { files.push(p); }
            }
        }
    }
    walk(std::path::Path::new("/repo/src"), &mut files);
    walk(std::path::Path::new("/repo/tests"), &mut files);
    for f in files {
        let Ok(s) = std::fs::read_to_string(&f) else { continue };
        // join rust line continuations
        let mut t = String::with_capacity(s.len());
        let cs: Vec<char> = s.chars().collect();
        let mut i = 0;
        while i < cs.len() {
            if cs[i] == '\\' && i + 1 < cs.len() && cs[i + 1] == '\n' {
                i += 2;
                while i < cs.len() && (cs[i] == ' ' || cs[i] == '\t') { i += 1; }
            } else { t.push(cs[i]); i += 1; }
        }
        let mut cur = String::new();
        for c in t.chars() {
            if c.is_ascii_hexdigit() { cur.push(c); } else {
                if cur.len() >= 60 && cur.len() % 2 == 0 && cur.len() <= 400_000 { res.push(crate::unhex(&cur.to_lowercase())); }
                cur.clear();
            }
        }
    }
    res.sort();
    res.dedup();
    res
}

fn targeted(out: &mut Out, rng: &mut R) {
    // non-canonical forms: each is a rejection that makes the encoding injective
    let tx = gen::tx_wide(rng, 1, 1);
    let b = serialize(&tx);
    // flag byte at offset 4
    for f in [1u8, 2, 0xff] {
        let mut m = b.clone();
        m[4] = f;
        on_bytes::<Transaction>(out, &m, "targeted");
    }
    // witness flag 1 with all-empty witnesses appended
    {
        let mut m = b.clone();
        m[4] = 1;
        m.extend_from_slice(&[0, 0, 0, 0, 0, 0]);
        on_bytes::<Transaction>(out, &m, "targeted");
    }
    // issuance bit with null issuance; coinbase index with payload
    let mut i = gen::txin(rng, gen::InKind::Plain, false);
    i.previous_output.vout = 5;
    let ib = serialize(&i);
    {
        let mut m = ib.clone();
        m[35] |= 0x80; // bit 31 of vout
        m.extend_from_slice(&[0u8; 66]); // nonce, entropy, null, null
        on_bytes::<TxIn>(out, &m, "targeted");
        let mut m2 = ib.clone();
        m2[32..36].copy_from_slice(&[0xff; 4]);
        m2.extend_from_slice(&serialize(&gen::issuance(rng, false)));
        on_bytes::<TxIn>(out, &m2, "targeted");
        let mut m3 = ib.clone();
        m3[35] |= 0x40;
        on_bytes::<TxIn>(out, &m3, "targeted");
        let mut m4 = ib.clone();
        m4[35] |= 0xc0;
        m4.extend_from_slice(&serialize(&gen::issuance(rng, true)));
        on_bytes::<TxIn>(out, &m4, "targeted");
    }
    // every confidential prefix, with a valid and an invalid x
    let good = gen::pubkey(rng).serialize();
    for p in 0u8..=12 {
        for x in [&good[1..], &[0xffu8; 32][..], &[0u8; 32][..], &gen::arr32(rng)[..]] {
            let mut m = vec![p];
            m.extend_from_slice(x);
            on_bytes::<Asset>(out, &m, "targeted");
            on_bytes::<Value>(out, &m, "targeted");
            on_bytes::<Nonce>(out, &m, "targeted");
        }
    }
    for p in [0x7fu8, 0x80, 0xfe, 0xff] {
        on_bytes::<Value>(out, &[p, 1, 2, 3, 4, 5, 6, 7, 8], "targeted");
    }
    // x just around the field prime
    let pm: [u8; 32] = [0xff,0xff,0xff,0xff,0xff,0xff,0xff,0xff,0xff,0xff,0xff,0xff,0xff,0xff,0xff,0xff,0xff,0xff,0xff,0xff,0xff,0xff,0xff,0xff,0xff,0xff,0xff,0xfe,0xff,0xff,0xfc,0x2f];
    for d in [-3i32, -2, -1, 0, 1, 2, 5] {
        let mut x = pm;
        let v = (x[31] as i32 + d) as u8;
        x[31] = v;
        for p in [2u8, 8, 10] {
            let mut m = vec![p];
            m.extend_from_slice(&x);
            match p { 2 => on_bytes::<Nonce>(out, &m, "targeted"), 8 => on_bytes::<Value>(out, &m, "targeted"), _ => on_bytes::<Asset>(out, &m, "targeted") }
        }
    }
    // tweak around the group order n in an issuance
    let n: [u8; 32] = [0xff,0xff,0xff,0xff,0xff,0xff,0xff,0xff,0xff,0xff,0xff,0xff,0xff,0xff,0xff,0xfe,0xba,0xae,0xdc,0xe6,0xaf,0x48,0xa0,0x3b,0xbf,0xd2,0x5e,0x8c,0xd0,0x36,0x41,0x41];
    for d in [-1i32, 0, 1] {
        let mut x = n;
        x[31] = (x[31] as i32 + d) as u8;
        let mut m = x.to_vec();
        m.extend_from_slice(&[7u8; 32]);
        m.extend_from_slice(&[1, 0, 0, 0, 0, 0, 0, 0, 9, 0]);
        on_bytes::<AssetIssuance>(out, &m, "targeted");
    }
    // proofs: empty, too short, bad header, surjection with padding bits / wrong length
    for pr in [vec![], vec![0u8; 64], vec![0u8; 65], { let mut v = vec![0u8; 65]; v[0] = 0x80; v }, { let mut v = vec![0u8; 70]; v[0] = 0x40 | 19; v }, { let mut v = vec![0u8; 70]; v[0] = 0x40; v[1] = 64; v }, { let mut v = vec![0xffu8; 70]; v[0] = 0x60 | 18; v[1] = 63; v }, { let mut v = vec![0u8; 70]; v[0] = 0x60; v[1] = 63; for i in 2..10 { v[i] = 0xff; } v }] {
        let w = { let mut m = serialize(&pr); m.extend_from_slice(&[0, 0, 0]); m };
        on_bytes::<TxInWitness>(out, &w, "targeted");
        let w2 = { let mut m = vec![0u8]; m.extend_from_slice(&serialize(&pr)); m };
        on_bytes::<TxOutWitness>(out, &w2, "targeted");
    }
    for sp in [vec![1u8, 0, 1], vec![1u8, 0, 2], { let mut v = vec![3u8, 0, 0x0f]; v.extend_from_slice(&[0u8; 32 * 5]); v }, { let mut v = vec![3u8, 0, 0x07]; v.extend_from_slice(&[0u8; 32 * 4]); v }, { let mut v = vec![3u8, 0, 0x07]; v.extend_from_slice(&[0u8; 32 * 4 + 1]); v }, { let mut v = vec![1u8, 1, 0]; v.extend_from_slice(&[0u8; 32 + 33]); v }, { let mut v = vec![0u8, 1]; v.extend_from_slice(&[0u8; 32 + 32]); v }, vec![0u8, 0], { let mut v = vec![0u8, 0]; v.extend_from_slice(&[0u8; 32]); v }] {
        let mut m = serialize(&sp);
        m.push(0);
        on_bytes::<TxOutWitness>(out, &m, "targeted");
    }
    // vector length claims around MAX_VEC_SIZE / size_of T
    for ty_sz in [std::mem::size_of::<TxIn>(), std::mem::size_of::<TxOut>()] {
        for d in [0usize, 1] {
            let cnt = 4_000_000 / ty_sz + d;
            let mut m = vec![2u8, 0, 0, 0, 0];
            if ty_sz == std::mem::size_of::<TxOut>() { m.push(0); }
            m.push(0xfe);
            m.extend_from_slice(&(cnt as u32).to_le_bytes());
            m.extend_from_slice(&[0u8; 64]);
            on_bytes::<Transaction>(out, &m, "targeted");
        }
    }
    for claim in [4_000_000u64, 4_000_001, u64::MAX, 1 << 32] {
        let mut m = vec![0xffu8];
        m.extend_from_slice(&claim.to_le_bytes());
        m.extend_from_slice(&[0u8; 16]);
        on_bytes::<Script>(out, &m, "targeted");
        let mut m2 = vec![0u8; 32 + 4];
        m2.extend_from_slice(&m);
        on_bytes::<TxIn>(out, &m2, "targeted");
    }
    // compact-size integers exactly at the width boundaries, in minimal and in every longer form, with the
    // announced data present (so that an accepted non-minimal form would decode to an equal value)
    for &(val, full) in &[(0usize, true), (1, true), (0xfc, true), (0xfd, true), (0xfe, true), (0xffff, true), (0x10000, true), (0x10001, true)] {
        let data = gen::bytes(rng, if full { val } else { 0 });
        let forms: Vec<Vec<u8>> = vec![
            if val <= 0xfc { vec![val as u8] } else { vec![] },
            if val <= 0xffff { let mut v = vec![0xfd]; v.extend_from_slice(&(val as u16).to_le_bytes()); v } else { vec![] },
            { let mut v = vec![0xfe]; v.extend_from_slice(&(val as u32).to_le_bytes()); v },
            { let mut v = vec![0xff]; v.extend_from_slice(&(val as u64).to_le_bytes()); v },
        ];
        for f in forms.into_iter().filter(|f| !f.is_empty()) {
            let mut m = f.clone();
            m.extend_from_slice(&data);
            on_bytes::<Script>(out, &m, "varint-boundary");
            // the same length prefix on the script_sig of an input, and as a witness stack item
            let mut i = vec![7u8; 36];
            i.extend_from_slice(&m);
            i.extend_from_slice(&[0xff; 4]);
            on_bytes::<TxIn>(out, &i, "varint-boundary");
            // as an element count of a witness stack whose items are all empty
            if val <= 0x10001 {
                let mut w = vec![0u8, 0];
                w.extend_from_slice(&f);
                w.extend(std::iter::repeat(0u8).take(val));
                w.push(0);
                on_bytes::<TxInWitness>(out, &w, "varint-boundary");
            }
        }
    }
    // boundary values that cannot be materialised (4 GiB): the prefix alone, every form
    for val in [0xffff_fffeu64, 0xffff_ffff, 0x1_0000_0000, 0x1_0000_0001] {
        for f in [{ let mut v = vec![0xfeu8]; v.extend_from_slice(&(val as u32).to_le_bytes()); v }, { let mut v = vec![0xffu8]; v.extend_from_slice(&val.to_le_bytes()); v }] {
            on_bytes::<Script>(out, &f, "varint-boundary");
        }
    }
    // header: dynafed bit with legacy ext and vice versa; params tag >= 3
    let h = gen::header(rng);
    let hb = serialize(&h);
    {
        let mut m = hb.clone();
        m[3] ^= 0x80;
        on_bytes::<BlockHeader>(out, &m, "targeted");
    }
    for t in [3u8, 4, 0xff] {
        on_bytes::<Params>(out, &[t, 0, 0, 0, 0, 0], "targeted");
    }
}

pub fn run(rng: &mut R, out: &mut Out) {
    cfg_line(out);
    let scale = if out.tier_thorough { 12 } else { 1 };
    targeted(out, rng);
    for _ in 0..120 * scale {
        let t = gen::tx(rng);
        on_value(out, &t, rng, 3);
        out.count(&format!("tx.shape.in{}.out{}.wit{}", t.input.len().min(3), t.output.len().min(3), t.has_witness()));
    }
    for _ in 0..60 * scale {
        let k = gen::in_kind(rng);
        on_value(out, &gen::txin(rng, k, false), rng, 3);
        out.count(&format!("txin.kind.{:?}", k));
        on_value(out, &gen::txin(rng, gen::InKind::Coinbase, false), rng, 1);
        on_value(out, &gen::txout(rng, false), rng, 3);
        on_value(out, &gen::txin_witness(rng, true, true), rng, 3);
        on_value(out, &gen::txout_witness(rng), rng, 3);
        on_value(out, &gen::asset(rng), rng, 2);
        on_value(out, &gen::value(rng), rng, 2);
        on_value(out, &gen::nonce(rng), rng, 2);
        { let re = rng.gen_bool(0.5); on_value(out, &gen::issuance(rng, re), rng, 2); }
        on_value(out, &AssetIssuance::null(), rng, 0);
        on_value(out, &OutPoint::new(elements::Txid::from_byte_array(gen::arr32(rng)), gen::u32_edge(rng)), rng, 1);
        on_value(out, &gen::script(rng), rng, 2);
        on_value(out, &LockTime::from_consensus(gen::u32_edge(rng)), rng, 1);
        on_value(out, &gen::params(rng), rng, 3);
        on_value(out, &gen::header(rng), rng, 3);
    }
    for _ in 0..15 * scale {
        on_value(out, &gen::block(rng), rng, 3);
    }
    // systematic neighbourhoods (prefixes, every byte value at the structural positions)
    for i in 0..6 * scale {
        let mut t = gen::tx(rng);
        if i % 2 == 0 && !t.has_witness() {
            // make sure witness-carrying transactions are among them (flag byte 01)
            if t.input.is_empty() { t.input.push(gen::txin(rng, gen::InKind::Plain, true)); }
            t.input[0].witness.script_witness = vec![vec![1, 2, 3]];
        }
        sweep(out, &t, rng);
        let k = gen::in_kind(rng);
        sweep(out, &gen::txin(rng, k, false), rng);
        sweep(out, &gen::txout(rng, false), rng);
        sweep(out, &gen::txin_witness(rng, true, true), rng);
        sweep(out, &gen::txout_witness(rng), rng);
        sweep(out, &gen::asset(rng), rng);
        sweep(out, &gen::value(rng), rng);
        sweep(out, &gen::nonce(rng), rng);
        sweep(out, &gen::issuance(rng, i % 2 == 1), rng);
        sweep(out, &gen::params(rng), rng);
        sweep(out, &gen::header(rng), rng);
        sweep(out, &gen::block(rng), rng);
    }
    // constructors
    // lock-time constructors around LOCK_TIME_THRESHOLD: heights are exactly the values below it, times exactly
    // those from it upwards; every constructed value round-trips to an EQUAL value (same kind), and the K op
    // prints the kind
    for n in [0u32, 1, 499_999_998, 499_999_999, 500_000_000, 500_000_001, u32::MAX] {
        let below = n < 500_000_000;
        let h = LockTime::from_height(n);
        let t = LockTime::from_time(n);
        out.s("locktime_from_height_iff_below_threshold", h.is_ok() == below, || format!("n={}", n));
        out.s("locktime_from_time_iff_at_or_above_threshold", t.is_ok() == !below, || format!("n={}", n));
        for v in [h.ok(), t.ok(), Some(LockTime::from_consensus(n))].into_iter().flatten() {
            let b = serialize(&v);
            let back = deserialize::<LockTime>(&b);
            out.s("locktime_constructor_roundtrips_to_equal_value", matches!(&back, Ok(x) if *x == v), || format!("n={} value={:?} back={:?}", n, v, back));
            out.s("locktime_kind_matches_threshold", v.is_block_height() == below && v.is_block_time() == !below, || format!("n={} value={:?}", n, v));
            on_value(out, &v, rng, 0);
        }
    }
    // transactions whose ONLY witness data is a stack of empty items (a witness that is present but has no bytes)
    for (sw, pw) in [(vec![vec![]], vec![]), (vec![vec![], vec![]], vec![]), (vec![], vec![vec![]]), (vec![vec![]], vec![vec![]])] {
        let mut t = gen::tx_wide(rng, 2, 1);
        t.input[1].witness.script_witness = sw.clone();
        t.input[1].witness.pegin_witness = pw.clone();
        on_value(out, &t, rng, 1);
        let w = TxInWitness { amount_rangeproof: None, inflation_keys_rangeproof: None, script_witness: sw, pegin_witness: pw };
        out.s("witness_with_empty_items_is_not_empty", !w.is_empty(), || format!("{:?}", w));
        on_value(out, &w, rng, 0);
    }
    on_value(out, &TxOut::new_fee(gen::u64_edge(rng), gen::asset_id(rng)), rng, 1);
    on_value(out, &TxIn::default(), rng, 1);
    on_value(out, &TxOut::default(), rng, 1);
    on_value(out, &Params::Null, rng, 0);
    // varint boundaries on the vectors
    for (a, b) in [(0xfc, 1), (0xfd, 1), (1, 0xfc), (1, 0xfd), (0, 0), (0x100, 2)] {
        on_value(out, &gen::tx_wide(rng, a, b), rng, 1);
    }
    // scripts at the 2-byte / 4-byte varint boundaries
    // incl. the byte-vector allocation guard exactly at MAX_VEC_SIZE (accepted) and one above (rejected)
    let lens: Vec<usize> = vec![0xfc, 0xfd, 0xffff, 0x10000, 3_999_999, 4_000_000, 4_000_001];
    for l in lens {
        let s = Script::from(gen::bytes(rng, l));
        if l <= 4_000_000 { on_value(out, &s, rng, 0); } else { on_bytes::<Script>(out, &serialize(&s), "oversized"); }
    }
    // hex vectors from the repository, tried as every top-level type, plus mutations
    let hv = harvest_hex();
    out.count_n("harvested_hex_vectors", hv.len() as u64);
    for v in hv.iter() {
        if v.len() > 20000 && !out.tier_thorough { continue; }
        on_bytes::<Transaction>(out, v, "repo-vector");
        on_bytes::<Block>(out, v, "repo-vector");
        on_bytes::<BlockHeader>(out, v, "repo-vector");
        if v.len() < 3000 {
            for _ in 0..(2 * scale) {
                let m = gen::mutate(rng, v);
                on_bytes::<Transaction>(out, &m, "repo-vector-mutated");
                on_bytes::<Block>(out, &m, "repo-vector-mutated");
            }
        }
    }
    // random bytes into every decoder
    for _ in 0..40 * scale {
        let n = rng.gen_range(0..80);
        let b = gen::bytes(rng, n);
        on_bytes::<Transaction>(out, &b, "random");
        on_bytes::<TxIn>(out, &b, "random");
        on_bytes::<TxOut>(out, &b, "random");
        on_bytes::<BlockHeader>(out, &b, "random");
        on_bytes::<Params>(out, &b, "random");
        on_bytes::<TxInWitness>(out, &b, "random");
    }
}
