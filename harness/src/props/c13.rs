//! C13 — a sighash cache answers every query as a fresh one would, in any order
use crate::props::c01;
use crate::props::c03::{self, Leaf, Pv, Q, ECDSA_TYPES, SCHNORR_TYPES};
use crate::{gen, hex, Out, Rng, R};
use elements::encode::serialize;
use elements::sighash::SighashCache;
use elements::{BlockHash, SchnorrSighashType, Transaction, TxOut};

fn seq_line(tx: &Transaction, ps: &[TxOut], genesis: &[u8; 32], qs: &[Q]) -> String {
    format!(
        "cacheseq {} {} {} {}",
        hex(&serialize(tx)),
        c03::prevouts_str(ps),
        genesis.iter().map(|x| format!("{:02x}", x)).collect::<String>(),
        qs.iter().map(c03::q_str).collect::<Vec<_>>().join(";")
    )
}

/// run the sequence on ONE cache over a private copy of the transaction
fn run_seq(tx: &Transaction, ps: &[TxOut], genesis: BlockHash, qs: &[Q]) -> Vec<String> {
    let mut t = tx.clone();
    let mut cache = SighashCache::new(&mut t);
    qs.iter().map(|q| c03::run_q(&mut cache, ps, genesis, q)).collect()
}

fn one_sequence(out: &mut Out, tx: &Transaction, ps: &[TxOut], genesis: &[u8; 32], qs: &[Q]) {
    let g = BlockHash::from_byte_array(*genesis);
    let got = run_seq(tx, ps, g, qs);
    out.k(seq_line(tx, ps, genesis, qs), format!("ok {}", got.join("|")));
    // every query answers as a fresh cache over the ORIGINAL transaction does (script witnesses are
    // the only thing that changed in between), and as a fresh cache over the current transaction does
    let mut cur = tx.clone();
    for (i, (q, r)) in qs.iter().zip(got.iter()).enumerate() {
        match q {
            Q::W { idx, stack } => {
                let exp = if *idx < tx.input.len() { "some" } else { "none" };
                out.s("witness_mut_some_iff_in_range", r == exp, || format!("op #{} of {}", i, seq_line(tx, ps, genesis, qs)));
                if *idx < cur.input.len() {
                    cur.input[*idx].witness.script_witness = stack.clone();
                }
            }
            _ => {
                let f0 = c03::fresh(tx, ps, g, q);
                let f1 = c03::fresh(&cur, ps, g, q);
                out.s("cached_equals_fresh_on_original_tx", *r == f0, || format!("op #{} got {} fresh {} : {}", i, r, f0, seq_line(tx, ps, genesis, qs)));
                out.s("cached_equals_fresh_on_current_tx", *r == f1, || format!("op #{} got {} fresh {} : {}", i, r, f1, seq_line(tx, ps, genesis, qs)));
                out.count(&format!("seq.result.{}", match r.as_str() { "err" => "err", "errPrevoutKind" => "errPrevoutKind", "panic" => "panic", _ => "digest" }));
            }
        }
    }
}

/// `One(i, ps[i])` ≡ `All(ps)` for the ANYONECANPAY types; `One` for the others is `PrevoutKind`
fn one_vs_all(out: &mut Out, rng: &mut R, tx: &Transaction, ps: &[TxOut], genesis: &[u8; 32]) {
    let g = BlockHash::from_byte_array(*genesis);
    if ps.len() != tx.input.len() {
        return;
    }
    for idx in 0..tx.input.len() {
        let annex = c03::gen_annex(rng).filter(|a| a.first() == Some(&0x50));
        let leaf = c03::gen_leaf(rng, true);
        let codesep: u32 = rng.gen();
        for ty in SCHNORR_TYPES {
            let mk = |pv: Pv| Q::TG { idx, ty, pv, annex: annex.clone(), leaf: leaf.clone(), codesep };
            let acp = (ty as u8) & 0x80 != 0;
            let a = c03::fresh(tx, ps, g, &mk(Pv::All));
            let o = c03::fresh(tx, ps, g, &mk(Pv::One(idx)));
            let line = || seq_line(tx, ps, genesis, &[mk(Pv::All), mk(Pv::One(idx))]);
            if acp {
                out.s("one_suffices", a == o, || format!("All {} One {} : {}", a, o, line()));
                // … also on one cache, in both orders (F1: the output-witness hash must not need all prevouts)
                let r1 = run_seq(tx, ps, g, &[mk(Pv::One(idx)), mk(Pv::All), mk(Pv::One(idx))]);
                out.s("one_suffices_on_shared_cache", r1.iter().all(|r| *r == a), || format!("{:?} vs {} : {}", r1, a, line()));
                let other = (idx + 1) % tx.input.len();
                if other != idx {
                    let w = c03::fresh(tx, ps, g, &mk(Pv::One(other)));
                    out.s("one_for_another_input_is_error", w == "err", || line());
                }
            } else {
                out.s("one_insufficient_err", o == "errPrevoutKind", || format!("One {} : {}", o, line()));
                // the wrappers too
                let k = c03::fresh(tx, ps, g, &Q::TK { idx, ty, pv: Pv::One(idx) });
                out.s("one_insufficient_err", k == "errPrevoutKind", || format!("key-spend One {} : {}", k, line()));
            }
        }
    }
}

/// OBSERVATION (outside the property's premise, counted only): the taproot slot is filled from the
/// first `Prevouts::All` list; a different list passed later to the same cache is silently ignored
fn observe_second_list(out: &mut Out, rng: &mut R, tx: &Transaction, ps: &[TxOut], genesis: &[u8; 32]) {
    if ps.is_empty() || ps.len() != tx.input.len() {
        return;
    }
    let g = BlockHash::from_byte_array(*genesis);
    let mut ps2 = ps.to_vec();
    let j = rng.gen_range(0..ps2.len());
    ps2[j].value = loop { let v = gen::value(rng); if v != ps2[j].value { break v; } };
    let q = Q::TK { idx: 0, ty: SchnorrSighashType::All, pv: Pv::All };
    let mut t = tx.clone();
    let mut cache = SighashCache::new(&mut t);
    let first = c03::run_q(&mut cache, ps, g, &q);
    let second = c03::run_q(&mut cache, &ps2, g, &q);
    let fresh2 = c03::fresh(tx, &ps2, g, &q);
    if first.len() == 64 {
        out.count(if second == fresh2 { "observation.second_prevout_list.honoured" } else if second == first { "observation.second_prevout_list.ignored_stale_digest" } else { "observation.second_prevout_list.other" });
    }
}

/// A query that FAILS must leave the cache as it found it: taproot queries with an `All` list of the wrong length
/// (one short, one long, empty) are refused, and every later query with the right list answers as a fresh cache.
/// (The history language of the K line has one prevout list per history, so this stream is direct-check only.)
fn failed_query_leaves_cache_intact(out: &mut Out, rng: &mut R, tx: &Transaction, ps: &[TxOut], genesis: &[u8; 32]) {
    if ps.len() != tx.input.len() || tx.input.is_empty() {
        return;
    }
    let g = BlockHash::from_byte_array(*genesis);
    let wrong: Vec<TxOut> = match rng.gen_range(0..3) {
        0 => ps[..ps.len() - 1].to_vec(),
        1 => { let mut p = ps.to_vec(); p.push(gen::txout(rng, false)); p }
        _ => { let mut p: Vec<TxOut> = ps.iter().map(|_| gen::txout(rng, false)).collect(); p.push(gen::txout(rng, false)); p }
    };
    let nin = tx.input.len();
    let idx = rng.gen_range(0..nin);
    let bad_ty = SCHNORR_TYPES[rng.gen_range(0..SCHNORR_TYPES.len())];
    let bad = Q::TK { idx, ty: bad_ty, pv: Pv::All };
    let mut t = tx.clone();
    let mut cache = SighashCache::new(&mut t);
    // optionally something valid first (legacy / segwit only: they do not touch the taproot slot)
    if rng.gen_bool(0.3) {
        let q0 = Q::S { idx: rng.gen_range(0..nin), ty: ECDSA_TYPES[rng.gen_range(0..6)], script: gen::script(rng), value: gen::value(rng) };
        let _ = c03::run_q(&mut cache, ps, g, &q0);
    }
    let r_bad = c03::run_q(&mut cache, &wrong, g, &bad);
    let f_bad = c03::fresh(tx, &wrong, g, &bad);
    out.s("failed_query_answers_as_fresh", r_bad == f_bad, || format!("wrong-length All list ({} for {} inputs), type {:?}: cache {} fresh {}", wrong.len(), nin, bad_ty, r_bad, f_bad));
    out.count(&format!("failed_first.{}", if r_bad.len() == 64 { "digest" } else { r_bad.as_str() }));
    for _ in 0..4 {
        let q = match rng.gen_range(0..4) {
            0 => Q::TK { idx: rng.gen_range(0..nin), ty: SCHNORR_TYPES[rng.gen_range(0..SCHNORR_TYPES.len())], pv: Pv::All },
            1 => Q::TG { idx: rng.gen_range(0..nin), ty: SCHNORR_TYPES[rng.gen_range(0..SCHNORR_TYPES.len())], pv: Pv::All, annex: c03::gen_annex(rng).filter(|a| a.first() == Some(&0x50)), leaf: c03::gen_leaf(rng, true), codesep: rng.gen() },
            2 => Q::S { idx: rng.gen_range(0..nin), ty: ECDSA_TYPES[rng.gen_range(0..6)], script: gen::script(rng), value: gen::value(rng) },
            _ => c03::gen_query(rng, tx),
        };
        let r = c03::run_q(&mut cache, ps, g, &q);
        let f = c03::fresh(tx, ps, g, &q);
        out.s("query_after_failed_query_equals_fresh", r == f, || format!("after a refused {:?} query with a wrong-length All list ({} for {} inputs): {} got {} fresh {} ; {}", bad_ty, wrong.len(), nin, c03::q_str(&q), r, f, seq_line(tx, ps, genesis, &[q.clone()])));
    }
}

fn gen_seq(rng: &mut R, tx: &Transaction, n: usize) -> Vec<Q> {
    let mut qs = vec![];
    // a few queries that get repeated later
    let pool: Vec<Q> = (0..4).map(|_| c03::gen_query(rng, tx)).collect();
    for _ in 0..n {
        let q = match rng.gen_range(0..10) {
            0 | 1 => Q::W { idx: c03::gen_idx(rng, tx).min(tx.input.len() + 1), stack: gen::stack(rng) },
            2 | 3 | 4 => pool[rng.gen_range(0..pool.len())].clone(),
            _ => c03::gen_query(rng, tx),
        };
        qs.push(q);
    }
    qs
}

pub fn run(rng: &mut R, out: &mut Out) {
    c01::cfg_line(out);
    let thorough = out.tier_thorough;
    // regression corpus: F1 (ALL|ANYONECANPAY with One before/after All), every kind once on one cache
    {
        let mut tx = gen::tx_wide(rng, 3, 2);
        tx.input[1] = gen::txin(rng, gen::InKind::Issuance, true);
        tx.output[0] = gen::txout(rng, true);
        let ps: Vec<TxOut> = (0..3).map(|_| gen::txout(rng, false)).collect();
        let genesis = [7u8; 32];
        let acp_all = SchnorrSighashType::AllPlusAnyoneCanPay;
        let qs = vec![
            Q::TK { idx: 1, ty: acp_all, pv: Pv::One(1) },
            Q::TK { idx: 1, ty: acp_all, pv: Pv::All },
            Q::TK { idx: 1, ty: SchnorrSighashType::Default, pv: Pv::One(1) },
            Q::S { idx: 0, ty: ECDSA_TYPES[0], script: gen::script(rng), value: gen::value(rng) },
            Q::W { idx: 0, stack: vec![vec![1, 2, 3]] },
            Q::L { idx: 2, ty: ECDSA_TYPES[2], script: gen::script(rng) },
            Q::TG { idx: 2, ty: SchnorrSighashType::Single, pv: Pv::All, annex: Some(vec![0x50]), leaf: Leaf::Hash([9u8; 32]), codesep: 5 },
            Q::TK { idx: 1, ty: acp_all, pv: Pv::One(1) },
            Q::W { idx: 3, stack: vec![] },
            Q::S { idx: 5, ty: ECDSA_TYPES[3], script: gen::script(rng), value: gen::value(rng) },
            Q::TS { idx: 0, ty: SchnorrSighashType::NonePlusAnyoneCanPay, pv: Pv::One(0), leaf: Leaf::Script(0xc4, gen::script(rng)) },
        ];
        one_sequence(out, &tx, &ps, &genesis, &qs);
        one_vs_all(out, rng, &tx, &ps, &genesis);
    }
    let (n_seq, n_ova) = if thorough { (10000, 2000) } else { (600, 80) };
    for _ in 0..n_seq {
        let (tx, mut ps) = c03::scenario_tx(rng);
        // sometimes the (one, consistent) prevout list has the wrong size: every `All` query then fails
        match rng.gen_range(0..16) {
            0 => ps.push(gen::txout(rng, false)),
            1 => { ps.pop(); }
            _ => {}
        }
        let n = match rng.gen_range(0..6) { 0 => 1, 1 => 2, 2 => rng.gen_range(3..8), 3 => 40, _ => rng.gen_range(3..25) };
        let qs = gen_seq(rng, &tx, n);
        let genesis = gen::arr32(rng);
        out.count(&format!("seq.len.{}", match n { 1 => "1", 2 => "2", 3..=7 => "3-7", 8..=24 => "8-24", _ => "25-40" }));
        one_sequence(out, &tx, &ps, &genesis, &qs);
    }
    for _ in 0..n_ova {
        let (tx, ps) = c03::scenario_tx(rng);
        let genesis = gen::arr32(rng);
        one_vs_all(out, rng, &tx, &ps, &genesis);
        observe_second_list(out, rng, &tx, &ps, &genesis);
        failed_query_leaves_cache_intact(out, rng, &tx, &ps, &genesis);
    }
}
