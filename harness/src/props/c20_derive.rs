//! C20, derived impls: K ops that tie the model of `#[derive(Serialize, Deserialize)]`
//! (lean/EV/Model/SerdeDerive.lean, driven by the table regenerated from /repo) to the real impls.
//!   `derive.tokens <type> <human> <tree>`  the real token tree (recording serializer) is read back by the model and
//!                                          written again: must be reproduced token for token (names, widths, order);
//!   `derive.cross  <type> <human> <tree>`  … and written in the OTHER human-readable mode: must be the real tree there;
//!   `derive.lossy  <json|cbor> <tree>`     the model's `lossy` on full trees = the harness's (itself compared with the
//!                                          real serde_json / serde_cbor documents by S `lossy_matches_*`);
//!   `derive.of     <type> <human> <tree>`  the real derived `Deserialize` (token-tree deserializer) on the JSON / CBOR
//!                                          views and on mutated trees (fields permuted / dropped / duplicated / unknown /
//!                                          renamed, seq instead of map and map instead of seq, index and byte-string
//!                                          keys, wrong scalar kinds, damaged leaves) = the model's `ofS`; results are
//!                                          compared through the canonical non-human-readable tree of the value.
//! Included from c20.rs (`#[path]` module), so it shares its generators and the mutation engine.
use super::*;
use serde::de::DeserializeOwned;
use serde::Serialize;

/// canonical form of a full token tree: the entries of every map sorted by the printed key
fn canon_full(t: &Tok) -> Tok {
    let l = |v: &Vec<Tok>| v.iter().map(canon_full).collect::<Vec<_>>();
    let fl = |v: &Vec<(String, Tok)>| v.iter().map(|(k, x)| (k.clone(), canon_full(x))).collect::<Vec<_>>();
    match t {
        Tok::Some(v) => Tok::Some(Box::new(canon_full(v))),
        Tok::Seq(v) => Tok::Seq(l(v)),
        Tok::Tuple(v) => Tok::Tuple(l(v)),
        Tok::TupleStruct(n, v) => Tok::TupleStruct(n.clone(), l(v)),
        Tok::Map(v) => {
            let mut c: Vec<(Tok, Tok)> = v.iter().map(|(k, x)| (canon_full(k), canon_full(x))).collect();
            c.sort_by_key(|(k, _)| k.show());
            Tok::Map(c)
        }
        // the hand-written model of `Transaction` keeps `lock_time` as its consensus `u32` (EV.Model.Transaction), so the
        // variant is the one `LockTime::from_consensus` gives. The derived `Deserialize` of `Height` / `Time` does not
        // re-check the threshold: `{"Blocks": 600000000}` is accepted as `LockTime::Blocks(Height(600000000))`.
        Tok::Struct(n, v) if n == "Transaction" => Tok::Struct(n.clone(), v.iter().map(|(k, x)| (k.clone(), if k == "lock_time" { norm_locktime(x) } else { canon_full(x) })).collect()),
        Tok::Struct(n, v) => Tok::Struct(n.clone(), fl(v)),
        Tok::Newtype(n, v) => Tok::Newtype(n.clone(), Box::new(canon_full(v))),
        Tok::NewtypeVariant(a, i, n, v) => Tok::NewtypeVariant(a.clone(), *i, n.clone(), Box::new(canon_full(v))),
        other => other.clone(),
    }
}

fn norm_locktime(t: &Tok) -> Tok {
    if let Tok::NewtypeVariant(ty, _, _, inner) = t {
        if let Tok::Newtype(_, n) = &**inner {
            if let Tok::U(32, v) = &**n {
                let lt = LockTime::from_consensus(*v as u32);
                return match lt {
                    LockTime::Blocks(_) => Tok::NewtypeVariant(ty.clone(), 0, "Blocks".into(), Box::new(Tok::Newtype("Height".into(), Box::new(Tok::U(32, *v))))),
                    LockTime::Seconds(_) => Tok::NewtypeVariant(ty.clone(), 1, "Seconds".into(), Box::new(Tok::Newtype("Time".into(), Box::new(Tok::U(32, *v))))),
                };
            }
        }
    }
    t.clone()
}

fn of_canon<T: Serialize + DeserializeOwned>(t: &Tok, human: bool) -> String {
    Out::guard(|| match tk::from_tok::<T>(t, human) {
        Ok(v) => match tk::record(&v, false) {
            Ok(r) => format!("ok {}", canon_full(&r).show()),
            Err(e) => format!("record-failed {}", e),
        },
        Err(_) => "err".into(),
    })
}

/// positions (pre-order indices) of the `Map` nodes of a tree
fn map_nodes(t: &Tok, idx: &mut usize, out: &mut Vec<usize>) {
    let me = *idx;
    *idx += 1;
    match t {
        Tok::Seq(v) => {
            for x in v {
                map_nodes(x, idx, out);
            }
        }
        Tok::Map(v) => {
            out.push(me);
            for (k, x) in v {
                map_nodes(k, idx, out);
                map_nodes(x, idx, out);
            }
        }
        _ => {}
    }
}

/// struct-level edits of one map node: the field set / order / key kind of a derived struct (or a BTreeMap)
fn mutate_map_node(rng: &mut R, t: &Tok) -> Tok {
    let Tok::Map(v) = t else { return t.clone() };
    let mut c = v.clone();
    match rng.gen_range(0..12) {
        0 if !c.is_empty() => {
            let i = rng.gen_range(0..c.len());
            c.remove(i);
        }
        1 if !c.is_empty() => {
            let i = rng.gen_range(0..c.len());
            let e = c[i].clone();
            c.push(e);
        }
        2 if !c.is_empty() => {
            let i = rng.gen_range(0..c.len());
            let e = c[i].clone();
            c.insert(0, e);
        }
        3 => c.reverse(),
        4 if c.len() >= 2 => {
            // a random permutation
            for i in (1..c.len()).rev() {
                let j = rng.gen_range(0..=i);
                c.swap(i, j);
            }
        }
        5 => c.push((Tok::Str("zz_unknown_field".into()), Tok::Map(vec![(Tok::Str("a".into()), Tok::Seq(vec![Tok::Unit]))]))),
        6 if !c.is_empty() => {
            // field index instead of field name
            let i = rng.gen_range(0..c.len());
            c[i].0 = Tok::U(0, i as u64);
        }
        7 if !c.is_empty() => {
            // field name as bytes
            let i = rng.gen_range(0..c.len());
            if let Tok::Str(k) = &c[i].0 {
                c[i].0 = Tok::Bytes(k.as_bytes().to_vec());
            }
        }
        8 => return Tok::Seq(c.into_iter().map(|(_, x)| x).collect()), // positional form
        9 if !c.is_empty() => {
            let i = rng.gen_range(0..c.len());
            c[i].0 = [Tok::Unit, Tok::Bool(true), Tok::U(0, 1000), Tok::Seq(vec![])][rng.gen_range(0..4)].clone();
        }
        10 if !c.is_empty() => {
            // null in place of a value (Option fields: None; others: error)
            let i = rng.gen_range(0..c.len());
            c[i].1 = Tok::Unit;
        }
        _ if !c.is_empty() => {
            let i = rng.gen_range(0..c.len());
            if let Tok::Str(k) = &c[i].0 {
                c[i].0 = Tok::Str(k.to_uppercase());
            }
        }
        _ => {}
    }
    Tok::Map(c)
}
fn replace_at(t: &Tok, target: usize, idx: &mut usize, f: &mut dyn FnMut(&Tok) -> Tok) -> Tok {
    let me = *idx;
    *idx += 1;
    if me == target {
        // skip the subtree's indices
        let mut n = 0;
        let mut dummy = vec![];
        map_nodes(t, &mut n, &mut dummy);
        *idx = me + n;
        return f(t);
    }
    match t {
        Tok::Seq(v) => Tok::Seq(v.iter().map(|x| replace_at(x, target, idx, f)).collect()),
        Tok::Map(v) => Tok::Map(v.iter().map(|(k, x)| { let k2 = replace_at(k, target, idx, f); let x2 = replace_at(x, target, idx, f); (k2, x2) }).collect()),
        other => other.clone(),
    }
}
fn mutate_struct_level(rng: &mut R, t: &Tok) -> Tok {
    let mut nodes = vec![];
    let mut n = 0;
    map_nodes(t, &mut n, &mut nodes);
    if nodes.is_empty() {
        return mutate_tree(rng, t);
    }
    // the outermost maps (the struct itself, its nested structs) are favoured
    let pick = if rng.gen_bool(0.5) { nodes[rng.gen_range(0..nodes.len().min(4))] } else { nodes[rng.gen_range(0..nodes.len())] };
    let mut i = 0;
    replace_at(t, pick, &mut i, &mut |x| mutate_map_node(rng, x))
}

/// all K ops for one value of a derived type (`name` = the item's name in /repo = its name in the table)
pub fn k_derive<T: Serialize + DeserializeOwned>(out: &mut Out, rng: &mut R, name: &str, v: &T, mutations: usize) {
    out.count(&format!("derive.k.{}", name));
    let (Ok(rec_h), Ok(rec_b)) = (tk::record(v, true), tk::record(v, false)) else {
        out.s("recording_serializer_accepts", false, || name.to_string());
        return;
    };
    for human in [true, false] {
        let h = human as u8;
        let (rec, other) = if human { (&rec_h, &rec_b) } else { (&rec_b, &rec_h) };
        let shown = rec.show();
        out.k(format!("derive.tokens {} {} {}", name, h, shown), format!("ok {}", shown));
        out.k(format!("derive.cross {} {} {}", name, h, shown), format!("ok {}", other.show()));
        for json in [true, false] {
            if json && !human {
                continue;
            }
            let lossy = rec.lossy(json);
            out.k(format!("derive.lossy {} {}", if json { "json" } else { "cbor" }, shown), format!("ok {}", lossy.show()));
            let r = of_canon::<T>(&lossy, human);
            out.k(format!("derive.of {} {} {}", name, h, lossy.show()), r.clone());
            out.s("derive_tokde_roundtrip", r == format!("ok {}", canon_full(&rec_b).show()), || format!("{} human={} json={} got={}", name, human, json, clip(&r)));
            for i in 0..mutations {
                let m = if i % 2 == 0 { mutate_struct_level(rng, &lossy) } else { mutate_tree(rng, &lossy) };
                let r = of_canon::<T>(&m, human);
                out.count(&format!("derive.of.mutated.{}", if r.starts_with("ok") { "ok" } else if r == "err" { "err" } else { "other" }));
                out.s("deserialize_never_panics", r != "panic", || format!("{} human={} tree={}", name, human, clip(&m.show())));
                out.k(format!("derive.of {} {} {}", name, h, m.show()), r);
            }
        }
    }
}

pub fn run(rng: &mut R, out: &mut Out, psets: &[Pset]) {
    let thorough = out.tier_thorough;
    let scale: usize = if thorough { 12 } else { 1 };
    let m: usize = if thorough { 8 } else { 6 };
    // small derived items
    for _ in 0..4 * scale {
        { let v = secrets(rng); k_derive(out, rng, "TxOutSecrets", &v, m); }
        { let v = schnorr_sig(rng); k_derive(out, rng, "SchnorrSig", &v, m); }
        { let v = control_block(rng); k_derive(out, rng, "ControlBlock", &v, m); }
        { let v = tap_tree(rng); k_derive(out, rng, "TapTree", &v, m); }
        { let v = leaf_version(rng); k_derive(out, rng, "LeafVersion", &v, 2); }
        { let v = raw_key(rng); k_derive(out, rng, "Key", &v, m); }
        { let v = prop_key(rng); k_derive(out, rng, "ProprietaryKey", &v, m); }
        let pair = pset::raw::Pair { key: raw_key(rng), value: { let l = rng.gen_range(0..20); gen::bytes(rng, l) } };
        k_derive(out, rng, "Pair", &pair, m);
        { let v = Sequence(gen::u32_edge(rng)); k_derive(out, rng, "Sequence", &v, 2); }
        let lt = LockTime::from_consensus(gen::u32_edge(rng));
        k_derive(out, rng, "LockTime", &lt, m);
        match lt {
            LockTime::Blocks(x) => k_derive(out, rng, "Height", &x, 2),
            LockTime::Seconds(x) => k_derive(out, rng, "Time", &x, 2),
        }
    }
    for n in [0u32, 1, 499_999_999] {
        k_derive(out, rng, "Height", &elements::locktime::Height::from_consensus(n).unwrap(), 2);
        k_derive(out, rng, "LockTime", &LockTime::from_consensus(n), 2);
    }
    for n in [500_000_000u32, u32::MAX] {
        k_derive(out, rng, "Time", &elements::locktime::Time::from_consensus(n).unwrap(), 2);
        k_derive(out, rng, "LockTime", &LockTime::from_consensus(n), 2);
    }
    k_derive(out, rng, "TxOutSecrets", &TxOutSecrets::new(AssetId::from_byte_array([0; 32]), AssetBlindingFactor::zero(), 0, ValueBlindingFactor::zero()), m);
    k_derive(out, rng, "TxOutSecrets", &TxOutSecrets::new(AssetId::from_byte_array([0xff; 32]), AssetBlindingFactor::zero(), u64::MAX, ValueBlindingFactor::zero()), m);
    {
        use elements::taproot::{TaprootBuilder, TaprootMerkleBranch, TapNodeHash};
        k_derive(out, rng, "TaprootBuilder", &TaprootBuilder::new(), m);
        let b = TaprootBuilder::new().add_leaf(1, gen::script(rng)).unwrap(); // incomplete: a `None` entry in `branch`
        k_derive(out, rng, "TaprootBuilder", &b, m);
        let b = TaprootBuilder::new().add_leaf(1, gen::script(rng)).unwrap().add_hidden(1, TapNodeHash::from_byte_array(gen::arr32(rng))).unwrap();
        k_derive(out, rng, "TaprootBuilder", &b, m);
        k_derive(out, rng, "TaprootMerkleBranch", &TaprootMerkleBranch::from_inner(vec![]).unwrap(), 2);
        let n = rng.gen_range(1..4);
        { let v = TaprootMerkleBranch::from_inner((0..n).map(|_| TapNodeHash::from_byte_array(gen::arr32(rng))).collect()).unwrap(); k_derive(out, rng, "TaprootMerkleBranch", &v, m); }
    }
    // PSET maps: default, sparsely and fully populated (`pegin_tx` is a `bitcoin::Transaction`: a pure parameter of the
    // model, exercised by S only)
    k_derive(out, rng, "Input", &pset::Input::default(), m);
    k_derive(out, rng, "Output", &pset::Output::default(), m);
    k_derive(out, rng, "Global", &pset::Global::default(), m);
    k_derive(out, rng, "TxData", &pset::GlobalTxData::default(), m);
    for _ in 0..3 * scale {
        let mut i = pset::Input::default();
        fill_input(rng, &mut i);
        i.pegin_tx = None;
        k_derive(out, rng, "Input", &i, m);
        let mut o = pset::Output::default();
        fill_output(rng, &mut o);
        k_derive(out, rng, "Output", &o, m);
        let mut g = pset::Global::default();
        fill_global(rng, &mut g);
        k_derive(out, rng, "TxData", &g.tx_data, 2);
        k_derive(out, rng, "Global", &g, m);
    }
    k_derive(out, rng, "PartiallySignedTransaction", &Pset::new_v2(), m);
    let n = if thorough { psets.len() } else { psets.len().min(10) };
    for p in psets.iter().take(n) {
        let mut q = p.clone();
        for i in q.inputs_mut() {
            i.pegin_tx = None;
        }
        if serialize(&q).len() > 40_000 {
            continue;
        }
        k_derive(out, rng, "PartiallySignedTransaction", &q, m);
    }
    // the third-party parameter that is not transcribed in the driver: its round-trip law on the real code
    for _ in 0..6 * scale {
        let t = btc_tx(rng);
        s_formats(out, "bitcoin_transaction", &t, &|| hex(&bitcoin::consensus::serialize(&t)));
        let ks = key_source(rng);
        s_formats(out, "bip32_key_source", &ks, &|| format!("{:?}", ks));
        let x = xpub(rng);
        s_formats(out, "bip32_xpub", &x, &|| x.to_string());
        let pk = btc_pubkey(rng);
        s_formats(out, "bitcoin_public_key", &pk, &|| pk.to_string());
        let xo = xonly(rng);
        s_formats(out, "xonly_public_key", &xo, &|| xo.to_string());
    }
}
