//! C07 × C08 × C14 bridge checks (S, on the real code; theorems: `from_tx_roundtrip`, `from_tx_roundtrip_only_if`,
//! `merge_roundtrip`, `merge_can_break_blinding_rule`, `roundtrip_preserves_views` in lean/EV/Props/C07.lean):
//!   * `Pset::from_tx(tx)` serializes to bytes that parse back to an equal PSET and re-serialize identically
//!     exactly when the transaction is within the format's own limits (every output has a value and an asset,
//!     a confidential nonce only on an at least partially blinded output, ≤ 10 000 maps);
//!   * the merge of two decodable PSETs parses back to an equal PSET with the same unique id whenever its
//!     outputs still satisfy the decoder's output rules; a merge that breaks the blinding-completeness rule
//!     is observed (D `bridge.merge.breaks_output_rule`) and must then be rejected by the decoder;
//!   * `extract_tx`, `unique_id`, `locktime` agree before and after a round trip through bytes.
//! All byte strings also go through K `psetdec`, so the model is compared on them.
use super::*;
use elements::confidential::{Asset, Nonce, Value};

fn res<T, E>(r: Result<T, E>, f: impl Fn(&T) -> String, e: impl Fn(&E) -> String) -> String {
    match r {
        Ok(t) => format!("ok:{}", f(&t)),
        Err(x) => format!("err:{}", e(&x)),
    }
}

/// the three C08 views of a PSET, canonicalised
fn views(p: &Pset) -> String {
    Out::guard(|| {
        let ex = res(p.extract_tx(), |t| hex(&serialize(t)), |e| pd::err_name(e));
        let id = res(p.unique_id(), |i| i.to_string(), |e| pd::err_name(e));
        let lt = res(p.locktime(), |l| l.to_consensus_u32().to_string(), |e| pd::err_name(e));
        format!("{}|{}|{}", ex, id, lt)
    })
}

/// `TxReady` of the model, written independently from the decoder's acceptance rules
fn tx_ready(tx: &Transaction) -> (bool, &'static str) {
    if tx.input.len() > 10_000 || tx.output.len() > 10_000 {
        return (false, "too_many_maps");
    }
    for o in &tx.output {
        if matches!(o.value, Value::Null) {
            return (false, "null_value");
        }
        if matches!(o.asset, Asset::Null) {
            return (false, "null_asset");
        }
        if matches!(o.nonce, Nonce::Confidential(_)) && !o.is_partially_blinded() {
            return (false, "conf_nonce_unblinded");
        }
    }
    (true, "ready")
}

/// turn a generated transaction into one inside the limits (keeps everything else)
fn make_ready(rng: &mut R, tx: &mut Transaction) {
    for o in tx.output.iter_mut() {
        if matches!(o.value, Value::Null) {
            o.value = Value::Explicit(gen::u64_edge(rng));
        }
        if matches!(o.asset, Asset::Null) {
            o.asset = Asset::Explicit(gen::asset_id(rng));
        }
        if matches!(o.nonce, Nonce::Confidential(_)) && !o.is_partially_blinded() {
            o.nonce = if rng.gen_bool(0.5) { Nonce::Null } else { Nonce::Explicit(gen::arr32(rng)) };
        }
    }
}

fn roundtrip_equal(p: &Pset, b: &[u8]) -> bool {
    matches!(deserialize::<Pset>(b), Ok(q) if q == *p && pd::dump_pset(&q) == pd::dump_pset(p) && serialize(&q) == b)
}

fn from_tx_case(cx: &mut Cx, tx: &Transaction) {
    let p = Pset::from_tx(tx.clone());
    let b = serialize(&p);
    let (ready, why) = tx_ready(tx);
    cx.out.count(&format!("bridge.fromtx.{}", why));
    let dec = on_bytes(cx, &b, "bridge.fromtx");
    if ready {
        cx.out.s("bridge_from_tx_roundtrip", roundtrip_equal(&p, &b), || format!("tx={} pset={}", hex(&serialize(tx)), hex(&b)));
    } else {
        cx.out.s("bridge_from_tx_outside_limits_rejected", dec.is_none(), || format!("{} tx={} pset={}", why, hex(&serialize(tx)), hex(&b)));
    }
    if let Some(q) = dec {
        cx.out.s("bridge_roundtrip_preserves_views", views(&q) == views(&p), || format!("pset={} before={} after={}", hex(&b), views(&p), views(&q)));
        // C08 composed with the codec: where extract_tx(from_tx tx) = tx, the detour through bytes changes nothing
        if let (Ok(t1), Ok(t2)) = (p.extract_tx(), q.extract_tx()) {
            cx.out.s("bridge_extract_after_bytes", serialize(&t1) == serialize(&t2), || hex(&b));
            cx.out.count(if t1 == *tx { "bridge.fromtx.extract_is_tx" } else { "bridge.fromtx.extract_differs_from_tx" });
        }
    }
}

fn ignored_adds(rng: &mut R, tx: &Transaction, density: f64, blinding: bool) -> Vec<Add> {
    use pd::IdRole;
    let mut adds = vec![];
    for (f, role, is_map) in pd::GLOBAL_FIELDS {
        if *role == IdRole::Ignored && *f != "version" && rng.gen_bool(density) {
            for _ in 0..(if *is_map { rng.gen_range(1..3) } else { 1 }) {
                adds.push(fv(rng, "g", f));
            }
        }
    }
    for n in 0..tx.input.len() {
        for (f, role, is_map) in pd::INPUT_FIELDS {
            if *role == IdRole::Ignored && rng.gen_bool(density) {
                for _ in 0..(if *is_map { rng.gen_range(1..3) } else { 1 }) {
                    adds.push(fv(rng, &format!("i{}", n), f));
                }
            }
        }
    }
    for n in 0..tx.output.len() {
        for (f, role, is_map) in pd::OUTPUT_FIELDS {
            let blind_field = matches!(*f, "value_rangeproof" | "asset_surjection_proof" | "blinding_key" | "blinder_index");
            if blind_field && !blinding {
                continue;
            }
            if *role == IdRole::Ignored && rng.gen_bool(if blind_field { 0.35 } else { density }) {
                for _ in 0..(if *is_map { rng.gen_range(1..3) } else { 1 }) {
                    adds.push(fv(rng, &format!("o{}", n), f));
                }
            }
        }
    }
    adds
}

fn merge_case(cx: &mut Cx, a: &Pset, b: &Pset, stream: &str) {
    let (wa, wb) = (wf(a), wf(b));
    if !(wa && wb) {
        cx.out.count("bridge.merge.operand_not_wf");
        return;
    }
    let ida = a.unique_id();
    let mut m = a.clone();
    let r = Out::guard(|| match m.merge(b.clone()) { Ok(()) => "ok".into(), Err(e) => format!("err:{}", pd::err_name(&e)) });
    cx.out.s("bridge_merge_no_panic", r != "panic", || format!("a={} b={}", hex(&serialize(a)), hex(&serialize(b))));
    if r != "ok" {
        cx.out.count(&format!("bridge.merge.{}.refused", stream));
        return;
    }
    let mb = serialize(&m);
    let dec = on_bytes(cx, &mb, "bridge.merge");
    if wf(&m) {
        cx.out.count(&format!("bridge.merge.{}.wf", stream));
        let same_id = matches!((&ida, m.unique_id()), (Ok(x), Ok(y)) if *x == y);
        cx.out.s("bridge_merge_roundtrip", roundtrip_equal(&m, &mb), || format!("a={} b={} merged={}", hex(&serialize(a)), hex(&serialize(b)), hex(&mb)));
        cx.out.s("bridge_merge_keeps_id_through_bytes", same_id && matches!(&dec, Some(q) if q.unique_id().ok() == ida.as_ref().ok().cloned()),
            || format!("a={} b={} merged={}", hex(&serialize(a)), hex(&serialize(b)), hex(&mb)));
        if let Some(q) = dec {
            cx.out.s("bridge_roundtrip_preserves_views", views(&q) == views(&m), || format!("pset={}", hex(&mb)));
        }
    } else {
        // both operands decodable, the merge is not (theorem `merge_can_break_blinding_rule`): recorded, and the
        // decoder must refuse the bytes
        cx.out.count(&format!("bridge.merge.{}.breaks_output_rule", stream));
        cx.out.s("bridge_merge_broken_rule_rejected", dec.is_none(), || format!("a={} b={} merged={}", hex(&serialize(a)), hex(&serialize(b)), hex(&mb)));
    }
}

pub fn run(cx: &mut Cx, rng: &mut R) {
    let thorough = cx.out.tier_thorough;
    // ---- from_tx
    let n = if thorough { 1500 } else { 150 };
    for j in 0..n {
        let mut tx = match j % 3 {
            0 => gen::tx(rng),
            _ => { let a = rng.gen_range(0..4); let b = rng.gen_range(0..4); gen::tx_wide(rng, a, b) }
        };
        if j % 2 == 0 {
            make_ready(rng, &mut tx);
        }
        from_tx_case(cx, &tx);
    }
    // ---- merge of descendants of a common ancestor (additions to fields the unique id ignores)
    let n = if thorough { 600 } else { 60 };
    for j in 0..n {
        let mut tx = { let a = rng.gen_range(0..3); let b = rng.gen_range(1..3); gen::tx_wide(rng, a, b) };
        make_ready(rng, &mut tx);
        let base_adds = ignored_adds(rng, &tx, 0.08, false);
        let blinding = j % 3 == 0;
        let mut adds_a = base_adds.clone();
        adds_a.extend(ignored_adds(rng, &tx, 0.12, blinding));
        let mut adds_b = base_adds.clone();
        adds_b.extend(ignored_adds(rng, &tx, 0.12, blinding));
        let (Some(a), Some(b)) = (pd::build(&tx, &adds_a), pd::build(&tx, &adds_b)) else { cx.out.count("bridge.merge.build_failed"); continue };
        merge_case(cx, &a, &b, if blinding { "blinding" } else { "plain" });
        merge_case(cx, &b, &a, if blinding { "blinding" } else { "plain" });
    }
    // ---- the counterexample of the model on the real code: a marked, not yet blinded output merged with an
    // unmarked copy that carries a range proof
    for _ in 0..(if thorough { 20 } else { 4 }) {
        let mut tx = gen::tx_wide(rng, 1, 1);
        tx.output[0].value = Value::Explicit(rng.gen_range(1..1000));
        tx.output[0].asset = Asset::Explicit(gen::asset_id(rng));
        tx.output[0].nonce = Nonce::Null;
        tx.output[0].witness = Default::default();
        let a = pd::build(&tx, &[fv(rng, "o0", "blinding_key"), fv(rng, "o0", "blinder_index")]);
        let b = pd::build(&tx, &[fv(rng, "o0", "value_rangeproof")]);
        if let (Some(a), Some(b)) = (a, b) {
            merge_case(cx, &a, &b, "counterexample");
            merge_case(cx, &b, &a, "counterexample");
        }
    }
}
