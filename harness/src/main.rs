//! evh — correspondence + direct-search harness for the rust-elements properties.
//!
//! `evh run <Cxx> <quick|thorough> <seed>` prints, on stdout, tab-separated records:
//!   K \t <op line> \t <result of the real code>      (fed to the Lean driver and diffed)
//!   S \t <check name> \t ok|FAIL|KNOWN \t <detail>    (property evaluated directly on the real code)
//!   D \t <key> \t <count>                             (input distribution)
//! Every random choice derives from the one ChaCha stream seeded by <seed>.
#![allow(clippy::all)]
#![allow(dead_code)]

use std::collections::BTreeMap;
use std::io::Write;
use std::panic::{catch_unwind, AssertUnwindSafe};

pub mod gen;
pub mod props;

pub use rand::{Rng, SeedableRng};
pub type R = rand_chacha::ChaCha20Rng;

pub fn hex(b: &[u8]) -> String {
    if b.is_empty() {
        return "-".to_string();
    }
    let mut s = String::with_capacity(b.len() * 2);
    for x in b {
        s.push_str(&format!("{:02x}", x));
    }
    s
}

pub fn unhex(s: &str) -> Vec<u8> {
    if s == "-" {
        return vec![];
    }
    (0..s.len() / 2).map(|i| u8::from_str_radix(&s[2 * i..2 * i + 2], 16).unwrap()).collect()
}

pub struct Out {
    pub k: Vec<(String, String)>,
    pub s: Vec<(String, String, String)>,
    pub d: BTreeMap<String, u64>,
    pub tier_thorough: bool,
    pub max_fail_per_check: usize,
    fails: BTreeMap<String, usize>,
}

impl Out {
    pub fn new(thorough: bool) -> Out {
        Out { k: vec![], s: vec![], d: BTreeMap::new(), tier_thorough: thorough, max_fail_per_check: 5, fails: BTreeMap::new() }
    }
    /// record a correspondence op with the real code's result
    pub fn k(&mut self, op: String, res: String) {
        self.k.push((op, res));
    }
    /// run `f` under catch_unwind; result string or "panic"
    pub fn guard<F: FnOnce() -> String>(f: F) -> String {
        match catch_unwind(AssertUnwindSafe(f)) {
            Ok(s) => s,
            Err(_) => "panic".to_string(),
        }
    }
    pub fn count(&mut self, key: &str) {
        *self.d.entry(key.to_string()).or_insert(0) += 1;
    }
    pub fn count_n(&mut self, key: &str, n: u64) {
        *self.d.entry(key.to_string()).or_insert(0) += n;
    }
    /// direct-search verdict for one evaluated instance
    pub fn s(&mut self, check: &str, ok: bool, detail: impl FnOnce() -> String) {
        self.count(&format!("S.{}.evals", check));
        if !ok {
            let n = self.fails.entry(check.to_string()).or_insert(0);
            *n += 1;
            if *n <= self.max_fail_per_check {
                self.s.push((check.to_string(), "FAIL".to_string(), detail()));
            }
        }
    }
    /// Behaviour that the harness PINS (today's accept/reject decision of a decoder, today's error variant, a test
    /// vector found at a known place in the source) but that the property text does not mandate. A change is
    /// reported like a broken correspondence ("no longer shown"), never as a failing input of the property.
    pub fn pin(&mut self, check: &str, ok: bool, detail: impl FnOnce() -> String) {
        self.count(&format!("S.{}.evals", check));
        if !ok {
            let n = self.fails.entry(format!("{}#pin", check)).or_insert(0);
            *n += 1;
            if *n <= self.max_fail_per_check {
                self.s.push((check.to_string(), "PIN".to_string(), detail()));
            }
        }
    }
    /// A failing instance that belongs to a recorded finding class (class id first in detail)
    pub fn s_known(&mut self, check: &str, class: &str, detail: impl FnOnce() -> String) {
        self.count(&format!("S.{}.evals", check));
        let key = format!("{}#{}", check, class);
        let n = self.fails.entry(key).or_insert(0);
        *n += 1;
        if *n <= 2 {
            self.s.push((check.to_string(), format!("KNOWN:{}", class), detail()));
        }
    }
    pub fn flush(&self) {
        let stdout = std::io::stdout();
        let mut w = std::io::BufWriter::new(stdout.lock());
        for (op, res) in &self.k {
            writeln!(w, "K\t{}\t{}", op, res).unwrap();
        }
        for (c, v, d) in &self.s {
            writeln!(w, "S\t{}\t{}\t{}", c, v, d.replace('\n', " ").replace('\t', " ")).unwrap();
        }
        for (k, v) in &self.d {
            writeln!(w, "D\t{}\t{}", k, v).unwrap();
        }
    }
}

static LAST_PANIC: std::sync::Mutex<String> = std::sync::Mutex::new(String::new());

fn main() {
    // panics are outcomes that the checks catch and classify; the hook stays quiet but remembers the last one, so
    // that a panic NOBODY caught (a call into the real code outside a guard, or a bug of the harness) is reported
    // with its message and location instead of an empty exit 101
    std::panic::set_hook(Box::new(|info| {
        if let Ok(mut g) = LAST_PANIC.lock() { *g = format!("{}", info); }
    }));
    let args: Vec<String> = std::env::args().collect();
    if args.len() < 2 {
        eprintln!("usage: evh run <Cxx> <quick|thorough> <seed> | evh sizes");
        std::process::exit(2);
    }
    match args[1].as_str() {
        "run" => {
            let prop = args[2].as_str();
            let thorough = args[3] == "thorough";
            let seed: u64 = args[4].parse().unwrap_or(1);
            let mut out = Out::new(thorough);
            let mut rng = R::seed_from_u64(seed ^ prop_salt(prop));
            let extra: Vec<String> = args[5..].to_vec();
            let r = catch_unwind(AssertUnwindSafe(|| props::run(prop, &mut rng, &mut out, &extra)));
            match r {
                Ok(true) => out.flush(),
                Ok(false) => {
                    eprintln!("unknown property {}", prop);
                    std::process::exit(2);
                }
                Err(_) => {
                    let what = LAST_PANIC.lock().map(|g| g.clone()).unwrap_or_default();
                    out.s("no_uncaught_panic_during_the_run", false, || format!("the run stopped at an uncaught panic: {}", what));
                    out.flush();
                    eprintln!("uncaught panic: {}", what);
                    std::process::exit(101);
                }
            }
        }
        "probe" => { props::probe(&args[2..]); }
        "sizes" => {
            props::sizes();
        }
        _ => {
            eprintln!("unknown command");
            std::process::exit(2);
        }
    }
}

fn prop_salt(p: &str) -> u64 {
    let mut h: u64 = 0xcbf29ce484222325;
    for b in p.bytes() {
        h ^= b as u64;
        h = h.wrapping_mul(0x100000001b3);
    }
    h
}
